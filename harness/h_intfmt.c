/* Domain I: UInt32ToStrBaseSign / UInt64ToStrBaseSign (and the public wrappers) on exact-size
 * heap buffers.  Case:  I <w> <val> <signed> <base> <buflen>
 * Observation:          <ret> <hex of str[0..ret)> <nul: 1 if str[ret]==0 was written, 0 if not, - if ret==buflen> <canary ok> */
#include "h_common.h"

void run_intfmt(const char *input) {
    unsigned w, sgn, buflen; int base; uint64_t val;
    char *buf; size_t ret, i; int canary = 1; char nul = '-';
    if (sscanf(input, "I %u %" SCNu64 " %u %d %u", &w, &val, &sgn, &base, &buflen) != 5) return;
    h_set_case("%s", input);
    /* exact-size allocation: ASan traps any store at index >= buflen */
    buf = (char *) malloc(buflen ? buflen : 1);
    memset(buf, 0xAA, buflen ? buflen : 1);
    {
        char *dst = buflen ? buf : buf + 1;
        /* half of the cases a public wrapper can express go through that wrapper (same observation format, so the
         * model and the judge of the private function apply): SCPI_Int32ToStr / SCPI_Int64ToStr = signed decimal,
         * SCPI_UInt32ToStrBase / SCPI_UInt64ToStrBase = unsigned in the given base */
        int via_wrapper = (((val >> 1) ^ val ^ buflen) & 1) != 0;
        if (via_wrapper && sgn && base == 10) ret = w == 32 ? SCPI_Int32ToStr((int32_t) (uint32_t) val, dst, buflen) : SCPI_Int64ToStr((int64_t) val, dst, buflen);
        else if (via_wrapper && !sgn) ret = w == 32 ? SCPI_UInt32ToStrBase((uint32_t) val, dst, buflen, (int8_t) base) : SCPI_UInt64ToStrBase(val, dst, buflen, (int8_t) base);
        else if (w == 32) ret = UInt32ToStrBaseSign((uint32_t) val, dst, buflen, (int8_t) base, sgn ? TRUE : FALSE);
        else ret = UInt64ToStrBaseSign(val, dst, buflen, (int8_t) base, sgn ? TRUE : FALSE);
    }
    if (ret < buflen) {
        nul = buf[ret] == 0 ? '1' : '0';
        for (i = ret + 1; i < buflen; i++) if ((unsigned char) buf[i] != 0xAA) canary = 0;
    }
    if (buflen == 0 && (unsigned char) buf[0] != 0xAA) canary = 0;
    printf("%s => %zu ", input, ret);
    h_hex(stdout, buf, ret <= buflen ? ret : buflen);
    printf(" %c %d\n", nul, canary);
    free(buf);
}

static void emit(unsigned w, uint64_t v, unsigned sgn, int base, unsigned len) {
    char in[128];
    if (w == 32) v &= 0xFFFFFFFFu;
    snprintf(in, sizeof in, "I %u %" PRIu64 " %u %d %u", w, v, sgn, base, len);
    if (h_mine_str(in)) run_intfmt(in);
}

static const int bases[] = {2, 8, 10, 16, 0, 7, -1, 3, 100};

/* independent formatter: libc for bases 8, 10, 16, bit loop for base 2 */
static size_t ref_fmt(uint32_t v, int sgn, int base, char *out) {
    if (base == 10) return (size_t) (sgn ? sprintf(out, "%d", (int32_t) v) : sprintf(out, "%u", v));
    if (base == 16) return (size_t) sprintf(out, "%X", v);
    if (base == 8) return (size_t) sprintf(out, "%o", v);
    { int i, k = 0; if (!v) { strcpy(out, "0"); return 1; } for (i = 31; i >= 0; i--) if (k || ((v >> i) & 1)) out[k++] = (char)('0' + ((v >> i) & 1)); out[k] = 0; return (size_t) k; }
}

/* thorough only: ALL 2^32 values x {signed, unsigned} x bases {2, 8, 10, 16} against the independent formatter, in C;
 * one summary line per shard:  IFULL <lo> <hi> => <evaluations> <mismatches> <first mismatching case or -> */
static void intfmt_exhaustive(void) {
    uint64_t lo = ((uint64_t) h_shard << 32) / h_nshards, hi = ((uint64_t)(h_shard + 1) << 32) / h_nshards, v, evals = 0, bad = 0;
    static const int bs[] = {2, 8, 10, 16}; char got[40], want[40], first[80] = "-";
    for (v = lo; v < hi; v++) {
        int sgn, b;
        for (sgn = 0; sgn < 2; sgn++) for (b = 0; b < 4; b++) {
            size_t r = UInt32ToStrBaseSign((uint32_t) v, got, sizeof got, (int8_t) bs[b], sgn ? TRUE : FALSE), w = ref_fmt((uint32_t) v, sgn, bs[b], want);
            evals++;
            if (r != w || memcmp(got, want, w + 1) != 0) { if (!bad) snprintf(first, sizeof first, "%u/%d/%d", (uint32_t) v, sgn, bs[b]); bad++; }
        }
    }
    printf("IFULL %" PRIu64 " %" PRIu64 " => %" PRIu64 " %" PRIu64 " %s\n", lo, hi, evals, bad, first);
}

void dom_intfmt(void) {
    unsigned w, sgn, bi, len; int k; uint64_t n;
    if (h_exhaustive) intfmt_exhaustive();
    /* boundary values: 0, 1, powers of each base and neighbours, sign boundaries, all ones */
    for (w = 32; w <= 64; w += 32) {
        uint64_t top = w == 32 ? 0xFFFFFFFFull : ~0ull;
        uint64_t specials[600]; unsigned ns = 0, si;
        specials[ns++] = 0; specials[ns++] = 1; specials[ns++] = top; specials[ns++] = top - 1;
        specials[ns++] = (top >> 1); specials[ns++] = (top >> 1) + 1; specials[ns++] = (top >> 1) + 2;
        for (k = 0; k < (int) w; k++) { specials[ns++] = 1ull << k; specials[ns++] = (1ull << k) - 1; specials[ns++] = (1ull << k) + 1; }
        { uint64_t p = 1; while (p <= top / 10) { p *= 10; specials[ns++] = p; specials[ns++] = p - 1; specials[ns++] = p + 1;
                                                  specials[ns++] = (0 - p) & top; specials[ns++] = (1 - p) & top; } }
        for (si = 0; si < ns; si++)
            for (sgn = 0; sgn < 2; sgn++)
                for (bi = 0; bi < 9; bi++) {
                    /* every buffer length around the text length, plus 0,1 and a long one */
                    for (len = 0; len <= 70; len++) {
                        if (!h_thorough && len > 3 && (len % 7) != (si % 7) && len < 66 && len != 10 && len != 11 && len != 12
                            && len != 20 && len != 21 && len != 22 && len != 32 && len != 33 && len != 64 && len != 65) continue;
                        emit(w, specials[si], sgn, bases[bi], len);
                    }
                }
    }
    /* stratified + random values, every base, random lengths */
    n = h_thorough ? 3000000 : 150000;
    for (; n; n--) {
        uint64_t v = h_rand();
        unsigned bits = 1 + h_below(64);
        w = h_chance(50) ? 32 : 64;
        if (bits < 64) v &= (1ull << bits) - 1;         /* magnitude spread over every bit length */
        if (h_chance(25)) v = (0 - v);                   /* negative side */
        emit(w, v, h_below(2), bases[h_below(9)], h_chance(70) ? 70 : h_below(71));
    }
}
