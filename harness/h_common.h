/* Common definitions of the correspondence harness.  The harness is compiled on every run
 * against /repo/libscpi/src/*.c (private headers included) with ASan+UBSan. */
#ifndef H_COMMON_H
#define H_COMMON_H
#include <stdio.h>
#include <stdlib.h>
#include <string.h>
#include <stdint.h>
#include <inttypes.h>
#include <signal.h>
#include <unistd.h>
#include "scpi/scpi.h"
#include "utils_private.h"
#include "lexer_private.h"
#include "parser_private.h"
#include "fifo_private.h"

/* one PRNG for every random choice (xorshift64*), seeded from VERIF_SEED and the shard */
extern uint64_t h_rng_state;
static inline uint64_t h_rand(void) {
    uint64_t x = h_rng_state;
    x ^= x >> 12; x ^= x << 25; x ^= x >> 27;
    h_rng_state = x;
    return x * 0x2545F4914F6CDD1DULL;
}
static inline uint32_t h_below(uint32_t n) { return n ? (uint32_t)(h_rand() % n) : 0; }
static inline int h_chance(uint32_t pct) { return h_below(100) < pct; }

/* sharding: case i belongs to this process iff i % h_nshards == h_shard */
extern unsigned h_shard, h_nshards;
extern uint64_t h_case_no;
static inline int h_mine_str(const char *in) {
    uint64_t h = 1469598103934665603ULL; const unsigned char *p = (const unsigned char *) in;
    while (*p) { h ^= *p++; h *= 1099511628211ULL; }
    h ^= h >> 29;
    h_case_no++;
    return (h % h_nshards) == h_shard;
}

extern int h_thorough;      /* tier */
extern int h_exhaustive;    /* thorough tier proper: minute-long complete enumerations are on */
extern uint64_t h_seed;

/* output helpers */
void h_hex(FILE *f, const void *data, size_t len);    /* "-" for empty */
void h_hexs(FILE *f, const char *s);                  /* C string, "N" for NULL */
size_t h_unhex(const char *hex, unsigned char *out, size_t cap);

/* the current case, kept for the fault handler (sanitizer abort / watchdog) */
extern char h_current_case[8192];
void h_set_case(const char *fmt, ...);
void h_watchdog(unsigned seconds);

/* domains */
void dom_intfmt(void);
void dom_queue(void);
void dom_regs(void);
void dom_heap(void);
void dom_lexer(void);
void dom_match(void);
void dom_errstr(void);
void dom_expr(void);
void dom_buffmt(void);
void dom_roundtrip(void);
void dom_p01(void); void dom_p02(void); void dom_p04(void); void dom_p17(void); void dom_p05(void); void dom_p06(void); void dom_p08(void); void dom_p09(void); void dom_p09u(void); void dom_p21(void);
void dir_p02(void); void dir_p05(void); void dir_p09(void); void dir_p06(void); void dom_pline(void); void dir_p02b(void); void dir_p09b(void); void dir_p02c(void); void dir_p09c(void); void dir_p06big(void); void dom_p09ubig(void);
void dom_replay(const char *line);

#endif
