/* Generators of domain P (see h_parse.c for the case format). */
#include "h_common.h"
#include <ctype.h>
#include "scpi/scpi.h"
void run_parse(const char *input);

typedef struct { const char *pattern; const char *script; } entry_t;

/* entry pool: dispatch-oriented, parameter-oriented, result-oriented.  %d in the script is not used; tags are assigned per case. */
static const entry_t pool[] = {
    /* 0..17 dispatch */
    {"SYSTem:ERRor[:NEXT]?", "iT/rI,32,1,1,a"}, {"SYSTem:ERRor:COUNt?", "iT/rI,32,1,2,a"}, {"[:MEASure]:VOLTage:DC?", "iT/rI,32,1,3,a"},
    {"[:MEASure]:VOLTage#:AC?", "iN,2,-1/rI,32,1,4,a"}, {"OUTPut#:FREQuency#", "iN,3,1/pI,32,1,0"}, {"OUTPut:FREQuency?", "iT/rI,32,1,6,a"},
    {"*IDN?", "rC,4d414e55/rC,4d4f44"}, {"*RST", "iT"}, {"*CLS", "iT"}, {"TEST:A", "iT"}, {"TEST:A:B", "iT"}, {"TEST[:A]:C", "iT"},
    {"TEST:CHANnel#[:SUB#]", "iN,2,7"}, {"VOLT", "iT"}, {"TEST:A", "iT/ePush"}, {"SYSTem:VERSion?", "rC,313939392e30"}, {"OUTPut:STATe", "pB,1"}, {"OUTPut:STATe?", "rB,1"},
    /* 18..23 framing */
    {"Q1?", "rI,32,1,1,a"}, {"QNONE?", "iT"}, {"QFAIL?", "rI,32,1,2,a/ret,0"}, {"CMD", "pI,32,1,0"}, {"Q2?", "rI,32,1,1,a/rT,6122/rB,0"}, {"QERR?", "eP,-222,N/rI,32,1,5,a"},
    /* 24.. parameter readers */
    {"I32", "pI,32,1,1"}, {"I32O", "pI,32,1,0"}, {"U32", "pI,32,0,1"}, {"I64", "pI,64,1,1"}, {"U64", "pI,64,0,1"}, {"DBL", "pF,1,1"}, {"FLT", "pF,0,1"}, {"DBLO", "pF,1,0"},
    {"BOOL", "pB,1"}, {"BOOLO", "pB,0"}, {"CHO", "pC,1,0"}, {"CHOO", "pC,0,1"}, {"NUM", "pN,1"}, {"NUMO", "pN,0"}, {"CHR", "pH,1"}, {"CHRO", "pH,0"}, {"BLK", "pK,1"}, {"BLKO", "pK,0"},
    {"TXT", "pT,1,16"}, {"TXT3", "pT,1,3"}, {"ARR", "pA,32,1,3,1"}, {"ARRO", "pA,64,0,2,0"},
    {"TWO", "pI,32,1,1/pF,1,1"}, {"TWOS", "oF,1/pI,32,1,1/pF,1,1"}, {"THREE", "pI,32,1,1/pH,1/pB,0"}, {"MIX", "pN,1/pT,0,8/pI,64,0,0"}, {"NOP", "iT"}, {"FAIL", "ret,0"},
    {"ECHO?", "pI,32,1,1/rI,32,1,7,a"}, {"ECHOT?", "pT,1,32/rT,7a"},
    /* result writers of every type */
    {"R:I8?", "rI,8,1,80,a"}, {"R:U16?", "rI,16,0,ffff,10"}, {"R:I64?", "rI,64,1,8000000000000000,a"}, {"R:U64?", "rI,64,0,ffffffffffffffff,2"}, {"R:HEX?", "rI,32,0,dead,16"}, {"R:OCT?", "rI,32,0,1ff,8"},
    {"R:TXT?", "rT,61226222/rT,2d"}, {"R:BLK?", "rK,0001020a0d3b"}, {"R:BLK0?", "rK,-"}, {"R:BH?", "rKH,4/rKD,6162/rKD,6364"}, {"R:BOVER?", "rKH,2/rKD,616263/rKD,6162"},
    {"R:ARR?", "rA,2,0,00010203"}, {"R:ARRS?", "rA,4,1,0102030405060708"}, {"R:ARR0?", "rA,2,0,-/rI,32,1,5,a"}, {"R:ARR1?", "rA,1,0,414243"}, {"R:ARRI?", "rA,2,2,fffe0003,1"}, {"R:ARRF?", "rA,4,0,3fc00000c0490fdb,2"}, {"R:ARRD?", "rA,8,1,400921fb54442d18,2"}, {"R:ARRA?", "rA,1,2,00ff80,0"}, {"R:FOUR?", "rI,32,1,1,a/rB,1/rT,78/rC,4142"},
    {"R:DBL?", "rF,1,3ff8000000000000,312e35"}, {"R:FLT?", "rF,0,40490fdb,332e3134313539"},
    /* an entry without a handler, text copies into buffers of 0 and 1 bytes, a long array reader */
    {"NOOP", "null"}, {"TXT0", "pT,1,0"}, {"TXT1", "pT,1,1"}, {"ARRL", "pA,32,1,300,1"},
    /* misuse of the streaming block calls: a block left unfinished, data without a header of its own */
    {"R:BOPEN?", "rKH,a/rKD,61626364"}, {"R:BTAIL?", "rKD,555657"},
};
#define NPOOL ((int)(sizeof pool / sizeof pool[0]))

static size_t hexcat(char *out, const char *s, size_t n) { size_t i, k = 0; for (i = 0; i < n; i++) k += (size_t) sprintf(out + k, "%02x", (unsigned char) s[i]); if (!n) { out[0] = '-'; k = 1; } out[k] = 0; return k; }

/* table text from a list of pool indices; tag = position + 1 */
static size_t build_table_from(const entry_t *from, char *out, const int *idx, int n) {
    size_t k = 0; int i;
    for (i = 0; i < n; i++) {
        const entry_t *e = &from[idx[i]]; const char *sc = e->script; char fixed[256]; size_t j = 0;
        if (i) out[k++] = ';';
        k += hexcat(out + k, e->pattern, strlen(e->pattern));
        /* "ePush" placeholder and base letter 'a' (=10) are expanded here */
        while (*sc && j < sizeof fixed - 16) {
            if (!strncmp(sc, "ePush", 5)) { j += (size_t) sprintf(fixed + j, "eP,-230,4142"); sc += 5; }
            else if (sc[0] == ',' && sc[1] == 'a' && (sc[2] == 0 || sc[2] == '/')) { j += (size_t) sprintf(fixed + j, ",10"); sc += 2; }
            else fixed[j++] = *sc++;
        }
        fixed[j] = 0;
        k += (size_t) sprintf(out + k, ":%d:%s", i + 1, fixed);
    }
    out[k] = 0;
    return k;
}

static size_t build_table(char *out, const int *idx, int n) { return build_table_from(pool, out, idx, n); }

/* a header spelling of a pattern: optional parts kept or dropped, short or long forms, random case, numeric suffixes */
static size_t spell_header(char *out, const char *pattern, int exact) {
    const char *p = pattern; size_t k = 0; int skip = 0;
    while (*p) {
        if (*p == '[') { skip = !exact && h_chance(50); p++; continue; }
        if (*p == ']') { skip = 0; p++; continue; }
        if (skip) { p++; continue; }
        if (*p == '#') { if (h_chance(60)) k += (size_t) sprintf(out + k, "%u", h_below(h_chance(80) ? 10 : 70000)); p++; continue; }
        if (islower((unsigned char) *p) && !exact && h_chance(45)) { while (islower((unsigned char) *p)) p++; continue; }
        out[k++] = h_chance(50) ? (char) tolower((unsigned char) *p) : *p; p++;
    }
    out[k] = 0;
    return k;
}

static const char *params_ok[] = { "1", "-5", "+12", "100000", "2147483647", "-2147483648", "4294967295", "9223372036854775807", "18446744073709551615",
    "#HFF", "#Q17", "#B101", "#hffffffff", "1.5", "-1.5e3", ".5", "1.", "1e3", "1.5E-3", "12 V", "1.5mV", "3 KOHM", "2MHZ", "5 xyz", "1 e 3", "1E +3",
    "ON", "OFF", "BUS", "IMM", "EXTernal", "AUTO", "MIN", "MAXimum", "DEF", "UP", "DOWN", "NAN", "INF", "NINF", "abc", "a_1",
    "\"text\"", "'single'", "\"a\"\"b\"", "''", "\"\"", "\"long string here 12345\"", "#13abc", "#10", "#213abcdefghijklm", "#15a;b\n1", "#216ab\ncd;ef\r\nghijkl", "#220ab\nMARK 7\ncdefghijkl", "(1:2,3)", "(@1!2,3)", "()" };
static const char *params_bad[] = { "\"unterminated", "#", "#1", "#Hzz", "(", ")", "@", "$", "1,,2", ",", "#14ab", "'x", "\x80", "1 2", "- 1", "e5", "..", "#B2" };
#define NOK ((int)(sizeof params_ok / sizeof params_ok[0]))
#define NBAD ((int)(sizeof params_bad / sizeof params_bad[0]))

static size_t gen_params(char *out, int maxn, int bad_pct) {
    size_t k = 0; int n = (int) h_below((unsigned) maxn + 1), i;
    for (i = 0; i < n; i++) {
        const char *p = h_chance((unsigned) bad_pct) ? params_bad[h_below(NBAD)] : params_ok[h_below(NOK)];
        if (i) { if (h_chance(25)) out[k++] = ' '; out[k++] = ','; if (h_chance(25)) out[k++] = ' '; }
        k += (size_t) sprintf(out + k, "%s", p);
        if (h_chance(10)) out[k++] = ' ';
    }
    if (n && h_chance(bad_pct ? 8 : 0)) out[k++] = ',';
    out[k] = 0;
    return k;
}

/* one message: units separated by ';', terminated; headers taken from the table entries (idx) or undefined */
static size_t gen_message(char *out, const int *idx, int n, int maxunits, int bad_pct, int with_params) {
    size_t k = 0; int u, units = 1 + (int) h_below((unsigned) maxunits);
    static const char *undef[] = { "FOO", "volZ?", "SYST:NOPE", ":X:Y", "*XYZ?", "TEST:A:B:C", "OUTP:", "*", ":", "MEAS:VOLT", "A?B" };
    for (u = 0; u < units; u++) {
        if (u) { out[k++] = ';'; if (h_chance(15)) out[k++] = ' '; }
        if (h_chance(5)) continue;                                        /* empty unit */
        if (h_chance(12)) k += (size_t) sprintf(out + k, "%s", undef[h_below(11)]);
        else {
            const char *pat = pool[idx[h_below((unsigned) n)]].pattern;
            if (u && h_chance(40) && pat[0] != '*' && pat[0] != '[') {
                /* relative header: drop the path it shares with nothing in particular (the previous unit decides) */
                const char *c = strrchr(pat, ':'); char tmp[96];
                if (c && h_chance(60)) { spell_header(tmp, c + 1, 0); k += (size_t) sprintf(out + k, "%s", tmp); }
                else { if (h_chance(50)) out[k++] = ':'; k += spell_header(out + k, pat, 0); }
            } else { if (pat[0] != '*' && h_chance(30)) out[k++] = ':'; k += spell_header(out + k, pat, 0); }
        }
        if (with_params && h_chance(70)) { out[k++] = ' '; if (h_chance(10)) out[k++] = '\t'; k += gen_params(out + k, 4, bad_pct); }
        else if (h_chance(5)) out[k++] = ' ';
    }
    { unsigned t = h_below(10); if (t < 6) out[k++] = '\n'; else if (t < 8) { out[k++] = '\r'; out[k++] = '\n'; } else if (t < 9) out[k++] = '\r'; /* else unterminated */ }
    out[k] = 0;
    return k;
}

/* pick a table: `need` entries forced in, the rest random, random order */
static int pick_table(int *idx, int lo, int hi, int count) {
    int n = 0, i;
    for (i = 0; i < count; i++) idx[n++] = lo + (int) h_below((unsigned)(hi - lo));
    for (i = n - 1; i > 0; i--) { int j = (int) h_below((unsigned) i + 1), t = idx[i]; idx[i] = idx[j]; idx[j] = t; }
    return n;
}

static size_t chunk_hex(char *out, const char *s, size_t n) { return hexcat(out, s, n); }

static void emit_case(const char *line) { if (h_mine_str(line)) run_parse(line); }

/* plain P case: the stream in a random segmentation */
static void gen_plain(int lo, int hi, int tcount, int maxunits, int bad_pct, int with_params, int msgs, const char *tag) {
    static char line[70000], table[20000], msg[4096]; int idx[24], n, m; size_t k;
    int bufsize = h_chance(70) ? 256 : 2 + (int) h_below(60), qcap = h_chance(80) ? 16 : 1 + (int) h_below(3);
    n = pick_table(idx, lo, hi, tcount);
    /* now and then one of the special entries (no handler; text copy into 0 / 1 bytes; long array) joins the table */
    if (h_chance(20)) idx[h_below((unsigned) n)] = NPOOL - 6 + (with_params ? (int) h_below(4) : 0);
    build_table(table, idx, n);
    k = (size_t) sprintf(line, "%s %d %d %s", tag, bufsize, qcap, table);
    if (with_params && h_chance(1)) {
        /* a very long parameter list read by one array reader: every item is delivered, whatever the count */
        static char big[4000]; static const int counts[] = {254, 255, 256, 257, 258, 300}; int cnt = counts[h_below(6)], j; size_t bl;
        idx[0] = NPOOL - 3; build_table(table, idx, n);
        bl = (size_t) sprintf(big, "ARRL ");
        for (j = 0; j < cnt; j++) bl += (size_t) sprintf(big + bl, "%s%d", j ? "," : "", (j * 7) % 100);
        big[bl++] = '\n';
        k = (size_t) sprintf(line, "%s %d %d %s ", tag, 4096, qcap, table); k += chunk_hex(line + k, big, bl);
        emit_case(line);
        return;
    }
    if (h_chance(8)) {
        /* history: a terminated message and an UNTERMINATED one arrive in one call; a zero-length call executes the second.
         * Its last parameter must be delivered as written, not glued to what the first message left behind it */
        static char both[8400]; size_t l1 = gen_message(both, idx, n, maxunits, bad_pct, with_params), l2;
        while (l1 && (both[l1 - 1] == '\n' || both[l1 - 1] == '\r')) l1--;
        both[l1++] = '\n';
        l2 = gen_message(both + l1, idx, n, 1, bad_pct, with_params);
        while (l2 && (both[l1 + l2 - 1] == '\n' || both[l1 + l2 - 1] == '\r' || both[l1 + l2 - 1] == ' ')) l2--;
        if ((size_t) bufsize <= l1 + l2 + 1) { k = (size_t) sprintf(line, "%s %d %d %s", tag, (int)(l1 + l2 + 2 + h_below(30)), qcap, table); }
        line[k++] = ' '; k += chunk_hex(line + k, both, l1 + l2); k += (size_t) sprintf(line + k, " -");
        emit_case(line);
        return;
    }
    for (m = 0; m < msgs; m++) {
        size_t ml = gen_message(msg, idx, n, maxunits, bad_pct, with_params), off = 0;
        while (off < ml) {
            size_t c = h_chance(50) ? ml - off : 1 + h_below((unsigned)(ml - off));
            line[k++] = ' '; k += chunk_hex(line + k, msg + off, c); off += c;
            if (k > sizeof line - 9000) break;
        }
        if (h_chance(8)) k += (size_t) sprintf(line + k, " -");
    }
    emit_case(line);
}

void dom_p02(void) { unsigned long n = h_thorough ? 400000 : 40000; for (; n; n--) gen_plain(0, 18, 5 + (int) h_below(8), 6, 0, 0, 1, "P"); }
void dom_p05(void) { unsigned long n = h_thorough ? 600000 : 60000; for (; n; n--) gen_plain(24, 54, 4 + (int) h_below(8), 2, 12, 1, 1 + (int) h_below(2), "P"); }
void dom_p06(void) { unsigned long n = h_thorough ? 400000 : 40000; for (; n; n--) { unsigned r = h_below(3); gen_plain(r == 0 ? 18 : r == 1 ? 54 : 18, r == 0 ? 24 : NPOOL, 4 + (int) h_below(6), 6, 0, 0, 1 + (int) h_below(2), "P"); } }

/* P8: one stream, two segmentations (second = byte at a time) */
void dom_p08(void) {
    unsigned long cnt = h_thorough ? 300000 : 30000;
    static char line[140000], table[20000], stream[8192], msg[4096]; int idx[24], n;
    for (; cnt; cnt--) {
        size_t sl = 0, k, off; int m, msgs = 1 + (int) h_below(4);
        n = pick_table(idx, 0, NPOOL, 8 + (int) h_below(10));
        build_table(table, idx, n);
        for (m = 0; m < msgs; m++) { size_t ml = gen_message(msg, idx, n, 3, 10, 1); if (sl + ml < sizeof stream - 1) { memcpy(stream + sl, msg, ml); sl += ml; } }
        /* directed: a terminated numeric message followed by an UNTERMINATED numeric message that only a zero-length
         * call executes; whatever the previous message left behind the pending bytes must not leak into the number */
        int directed = h_chance(35);
        if (directed) {
            static const char *ncmd[] = {"I32", "U32", "I64", "U64", "DBL", "FLT", "NUM", "I32O"}; int k2;
            /* make sure the numeric commands are in the table */
            n = 0; for (k2 = 24; k2 <= 31; k2++) idx[n++] = k2; idx[n++] = 36; idx[n++] = 54; build_table(table, idx, n);
            sl = 0;
            for (m = 0; m < 1 + (int) h_below(2); m++)
                sl += (size_t) sprintf(stream + sl, "%s %u%s%u%s", ncmd[h_below(8)], h_below(100000), h_chance(40) ? "." : "", h_below(100000), h_chance(50) ? "\n" : "\r\n");
            sl += (size_t) sprintf(stream + sl, "%s %s%u", ncmd[h_below(8)], h_chance(20) ? "-" : "", h_below(1000));      /* unterminated */
        }
        /* streams never leave more pending than the buffer holds: the buffer holds the whole stream and the NUL behind it,
         * in a quarter of the cases with not a byte to spare (exact fit when the stream arrives in one call) */
        k = (size_t) sprintf(line, "P8 %d 16 %s", (int) sl + 1 + (h_chance(25) ? 0 : 1 + (int) h_below(40)), table);
        { unsigned mode = h_below(4);
          off = 0;
          if (mode == 0) { line[k++] = ' '; k += chunk_hex(line + k, stream, sl); }                       /* all at once */
          else if (mode == 1) { size_t cut = sl ? h_below((unsigned) sl + 1) : 0; line[k++] = ' '; k += chunk_hex(line + k, stream, cut); line[k++] = ' '; k += chunk_hex(line + k, stream + cut, sl - cut); }
          else while (off < sl) { size_t c = 1 + h_below((unsigned)(sl - off < 9 ? sl - off : 9)); line[k++] = ' '; k += chunk_hex(line + k, stream + off, c); off += c; } }
        if (directed || h_chance(30)) k += (size_t) sprintf(line + k, " -");
        k += (size_t) sprintf(line + k, " |");
        for (off = 0; off < sl; off++) { line[k++] = ' '; k += chunk_hex(line + k, stream + off, 1); }
        if (line[k - 1] == '|' ) { /* empty */ }
        /* the same trailing flush on both sides */
        { char *bar = strstr(line, " - |"); if (bar) k += (size_t) sprintf(line + k, " -"); }
        line[k] = 0;
        emit_case(line);
    }
}

/* P9: message(s) A then B, against B on a fresh context with A's registers and queue */
void dom_p09(void) {
    unsigned long cnt = h_thorough ? 300000 : 30000;
    static char line[140000], table[20000], msg[4096]; int idx[24], n;
    for (; cnt; cnt--) {
        size_t k, ml; int m, na = 1 + (int) h_below(3);
        n = pick_table(idx, 0, NPOOL, 8 + (int) h_below(10));
        build_table(table, idx, n);
        k = (size_t) sprintf(line, "P9 256 %d %s", h_chance(80) ? 16 : 2, table);
        if (h_chance(30)) {
            /* all of A in ONE call: a compound message followed by more bytes in the same call */
            static char all[13000]; size_t al = 0;
            for (m = 0; m < (na < 2 ? 2 : na); m++) { ml = gen_message(msg, idx, n, 4, 10, 1); if (al + ml < sizeof all - 2) { memcpy(all + al, msg, ml); al += ml; } }
            line[k++] = ' '; k += chunk_hex(line + k, all, al);
        } else
        for (m = 0; m < na; m++) { ml = gen_message(msg, idx, n, 4, 15, 1); line[k++] = ' '; k += chunk_hex(line + k, msg, ml); }
        if (h_chance(30)) k += (size_t) sprintf(line + k, " -");
        k += (size_t) sprintf(line + k, " |");
        ml = gen_message(msg, idx, n, 4, 8, 1);
        if (ml && msg[ml - 1] != '\n' && msg[ml - 1] != '\r') msg[ml++] = '\n';
        line[k++] = ' '; k += chunk_hex(line + k, msg, ml);
        line[k] = 0;
        emit_case(line);
    }
}

/* PU: unit isolation (second sentence of C09): unit 2 as the second unit of one message behind unit 1, against unit 2 alone
 * on a fresh context that has the registers and queue unit 1 leaves */
void dom_p09u(void) {
    unsigned long cnt = h_thorough ? 300000 : 30000;
    static char line[70000], table[20000], u1[4096], u2[4096]; int idx[24], n;
    for (; cnt; cnt--) {
        size_t k, l1, l2;
        n = pick_table(idx, 0, NPOOL, 8 + (int) h_below(12));
        if (h_chance(25)) { idx[0] = NPOOL - 2; idx[1] = NPOOL - 1; }            /* the two block-misuse entries together */
        build_table(table, idx, n);
        l1 = gen_message(u1, idx, n, 1, 8, 1);
        while (l1 && (u1[l1 - 1] == '\n' || u1[l1 - 1] == '\r')) l1--;
        u2[0] = ':'; l2 = 1 + gen_message(u2 + 1, idx, n, 1, 8, 1);
        while (l2 && (u2[l2 - 1] == '\n' || u2[l2 - 1] == '\r')) l2--;
        if (u2[1] == ':' || u2[1] == '*') { memmove(u2, u2 + 1, l2); l2--; }    /* already absolute / common */
        if (l2 == 0) continue;
        k = (size_t) sprintf(line, "PU 256 %d %s ", h_chance(80) ? 16 : 2, table);
        k += chunk_hex(line + k, u1, l1); k += (size_t) sprintf(line + k, " | "); k += chunk_hex(line + k, u2, l2);
        line[k] = 0;
        emit_case(line);
    }
}

/* P1 (C01): arbitrary bytes: mutated messages, binary noise, tiny buffers, over-long chunks, zero-length calls */
void dom_p01(void) {
    unsigned long cnt = h_thorough ? 500000 : 50000;
    static char line[140000], table[20000], msg[4096]; int idx[24], n;
    for (; cnt; cnt--) {
        size_t k; int m, msgs = 1 + (int) h_below(4);
        n = pick_table(idx, 0, NPOOL, 6 + (int) h_below(14));
        build_table(table, idx, n);
        k = (size_t) sprintf(line, "P %d %d %s", 2 + (int) h_below(h_chance(50) ? 24 : 200), 1 + (int) h_below(4), table);
        for (m = 0; m < msgs; m++) {
            size_t ml = gen_message(msg, idx, n, 3, 25, 1), off = 0, i;
            unsigned mut = h_below(6);
            for (i = 0; i < mut && ml; i++) {
                unsigned kind = h_below(5), at = h_below((unsigned) ml);
                if (kind == 0) msg[at] = (char) h_below(256);
                else if (kind == 1 && ml > 1) { memmove(msg + at, msg + at + 1, ml - at - 1); ml--; }
                else if (kind == 2 && ml < 4000) { memmove(msg + at + 1, msg + at, ml - at); ml++; }
                else if (kind == 3) msg[at] = "\"'#(),;:*?\n\r \t"[h_below(14)];
                else ml = at;
            }
            while (off < ml) {
                size_t c = h_chance(40) ? ml - off : 1 + h_below((unsigned)(ml - off));
                line[k++] = ' '; k += chunk_hex(line + k, msg + off, c); off += c;
            }
            if (h_chance(15)) k += (size_t) sprintf(line + k, " -");
        }
        line[k] = 0;
        emit_case(line);
    }
}

/* P4 (C04): numeric literals of every shape against the numeric readers; units in every case; special mnemonics */
static size_t gen_literal(char *out) {
    size_t k = 0; unsigned nd = 1 + h_below(h_chance(85) ? 8 : 25), i; unsigned shape = h_below(6);
    if (h_chance(35)) out[k++] = h_chance(50) ? '-' : '+';
    if (shape == 0 || shape == 3) { for (i = 0; i < nd; i++) out[k++] = (char)('0' + h_below(10)); }                                   /* integer */
    if (shape == 1 || shape == 4) { for (i = 0; i < nd; i++) out[k++] = (char)('0' + h_below(10)); out[k++] = '.'; nd = h_below(12); for (i = 0; i < nd; i++) out[k++] = (char)('0' + h_below(10)); }
    if (shape == 2 || shape == 5) { out[k++] = '.'; for (i = 0; i < nd; i++) out[k++] = (char)('0' + h_below(10)); }
    if (shape >= 3) {
        unsigned wsb = h_chance(20) ? 1 + h_below(2) : 0, wsa = h_chance(20) ? 1 + h_below(2) : 0;
        for (i = 0; i < wsb; i++) out[k++] = h_chance(80) ? ' ' : '\t';
        out[k++] = h_chance(50) ? 'e' : 'E';
        for (i = 0; i < wsa; i++) out[k++] = ' ';
        if (h_chance(60)) out[k++] = h_chance(50) ? '-' : '+';
        k += (size_t) sprintf(out + k, "%u", h_chance(70) ? h_below(40) : h_below(400));
    }
    out[k] = 0;
    return k;
}


/* a decimal literal within a hair of the midpoint between two adjacent floats (mant = 24) or doubles (mant = 53):
 * the value that separates "round down" from "round up".  For x = M * 2^-s with 2^(mant-1) <= M < 2^mant the midpoint to the
 * next value is (2M+1) * 2^-(s+1) = (2M+1) * 5^(s+1) / 10^(s+1), a finite decimal; the literal is that decimal (tie), or it
 * followed by zeros and a 1 (just above), or its predecessor followed by 9s (just below).  A conversion that goes through a
 * wider type first (double rounding), or that looks at too few digits, gets these wrong. */
static void gen_midpoint_literal(char *out) {
    int mant = h_chance(60) ? 24 : 53; unsigned s1 = 1 + h_below(mant == 24 ? 24 : 26), i, nd, how = h_below(3), pad = 1 + h_below(12);
    unsigned __int128 m = ((unsigned __int128) 1 << (mant - 1)) | (h_rand() & (((uint64_t) 1 << (mant - 1)) - 1)), v = 2 * m + 1;
    char dig[64]; char *p = out;
    for (i = 0; i < s1; i++) v *= 5;
    if (how == 2) v -= 1;                                      /* just below: predecessor, then 9s */
    nd = 0; do { dig[nd++] = (char)('0' + (unsigned)(v % 10)); v /= 10; } while (v);
    while (nd <= s1) dig[nd++] = '0';                          /* at least one digit before the point */
    if (h_chance(30)) *p++ = h_chance(50) ? '-' : '+';
    for (i = nd; i > 0; i--) { if (i == s1) *p++ = '.'; *p++ = dig[i - 1]; }
    if (how == 1) { for (i = 0; i + 1 < pad; i++) *p++ = '0'; *p++ = '1'; }
    else if (how == 2) { for (i = 0; i < pad; i++) *p++ = '9'; }
    *p = 0;
}

void dom_p04(void) {
    static const char *table = NULL; static char tbuf[4096]; static char line[8192], msg[1024], lit[128];
    static const int idx[] = {24, 26, 27, 28, 29, 30, 36, 25, 31};   /* I32 U32 I64 U64 DBL FLT NUM I32O DBLO */
    static const char *cmdname[] = {"I32", "U32", "I64", "U64", "DBL", "FLT", "NUM"};
    static const char *specials[] = {"MIN", "MINimum", "MAX", "MAXimum", "DEF", "DEFault", "UP", "DOWN", "NAN", "INF", "INFinity", "NINF", "AUTO", "MINI", "INFI", "DEFA", "NA"};
    unsigned long n = h_thorough ? 1500000 : 150000; int u;
    if (!table) { build_table(tbuf, idx, 9); table = tbuf; }
    /* every unit of the table in four casings and three separations */
    for (u = 0; scpi_units_def[u].name; u++) {
        int cs, sep;
        for (cs = 0; cs < 4; cs++) for (sep = 0; sep < 3; sep++) {
            char un[32]; size_t k, j, ml;
            for (j = 0; scpi_units_def[u].name[j]; j++) { char c = scpi_units_def[u].name[j]; un[j] = cs == 0 ? c : cs == 1 ? (char) tolower((unsigned char) c) : cs == 2 ? ((j & 1) ? (char) tolower((unsigned char) c) : c) : ((j & 1) ? c : (char) tolower((unsigned char) c)); }
            un[j] = 0;
            ml = (size_t) sprintf(msg, "NUM %s%s%s\n", h_chance(50) ? "2.5" : "-12e1", sep == 0 ? "" : sep == 1 ? " " : "  ", un);
            k = (size_t) sprintf(line, "P 256 16 %s ", table); k += chunk_hex(line + k, msg, ml);
            emit_case(line);
        }
    }
    for (u = 0; u < 17; u++) { int cs; for (cs = 0; cs < 3; cs++) {
        char sp[32]; size_t k, j, ml; for (j = 0; specials[u][j]; j++) sp[j] = cs == 0 ? specials[u][j] : cs == 1 ? (char) tolower((unsigned char) specials[u][j]) : (char) toupper((unsigned char) specials[u][j]); sp[j] = 0;
        ml = (size_t) sprintf(msg, "NUM %s\n", sp); k = (size_t) sprintf(line, "P 256 16 %s ", table); k += chunk_hex(line + k, msg, ml); emit_case(line); } }
    for (; n; n--) {
        size_t k, ml; unsigned kind = h_below(10);
        if (kind < 6) { gen_literal(lit); ml = (size_t) sprintf(msg, "%s %s\n", cmdname[h_below(7)], lit); }
        else if (kind < 7) { gen_midpoint_literal(lit); ml = (size_t) sprintf(msg, "%s %s\n", cmdname[4 + h_below(3)], lit); }
        else if (kind < 9) {
            /* nondecimal up to the type width */
            unsigned base = h_below(3), digits, i; char *p = lit;
            p += sprintf(p, "#%c", "HQB"[base] + (h_chance(50) ? 32 : 0));
            digits = 1 + h_below(base == 0 ? 16 : base == 1 ? 22 : 64);
            for (i = 0; i < digits; i++) *p++ = base == 0 ? "0123456789abcdefABCDEF"[h_below(22)] : base == 1 ? (char)('0' + h_below(8)) : (char)('0' + h_below(2));
            *p = 0;
            ml = (size_t) sprintf(msg, "%s %s\n", cmdname[h_below(7)], lit);
        } else {
            /* boundaries of the integer widths */
            static const char *b[] = {"2147483647", "-2147483648", "2147483648", "4294967295", "4294967296", "9223372036854775807", "-9223372036854775808", "18446744073709551615", "0", "-0", "+0", "00012"};
            ml = (size_t) sprintf(msg, "%s %s\n", cmdname[h_below(4)], b[h_below(12)]);
        }
        k = (size_t) sprintf(line, "P 256 16 %s ", table); k += chunk_hex(line + k, msg, ml);
        if (h_chance(12)) {
            /* history: the literal arrives UNTERMINATED behind a longer, terminated numeric message in the same call and is
             * executed by a zero-length call: it must decode to its own value, not to one glued to what the earlier
             * message left in the buffer */
            static char both[2200], m1[1100]; size_t l1, l2 = ml;
            if (l2 && msg[l2 - 1] == '\n') l2--;
            gen_literal(lit); l1 = (size_t) sprintf(m1, "%s %s%u%u\n", cmdname[h_below(7)], lit, h_below(100000), h_below(100000));
            memcpy(both, m1, l1); memcpy(both + l1, msg, l2);
            k = (size_t) sprintf(line, "P 256 16 %s ", table); k += chunk_hex(line + k, both, l1 + l2); k += (size_t) sprintf(line + k, " -");
        }
        emit_case(line);
    }
}

/* P17 (C17): one query whose script emits blocks and binary arrays: every element size, both byte orders, lengths 0..300,
 * streamed header / data calls in every kind of split, over-length chunks, unfinished blocks */
/* one handler script of the P17 domain */
static size_t p17_script(char *script, size_t cap, int allow_headerless) {
    size_t k = 0; unsigned ops = 1 + h_below(3), o;
    for (o = 0; o < ops; o++) {
        unsigned kind = h_below(allow_headerless ? 11 : 10), len = h_chance(70) ? h_below(12) : h_below(301), i;
        if (o) script[k++] = '/';
        if (kind < 3) {                                       /* whole block */
            k += (size_t) sprintf(script + k, "rK,"); if (!len) script[k++] = h_chance(50) ? 'N' : '-';
            for (i = 0; i < len; i++) k += (size_t) sprintf(script + k, "%02x", h_below(256));
        } else if (kind < 6) {                                /* array: size, format, elements */
            unsigned sz = 1u << h_below(4), cnt = h_chance(15) ? 0 : 1 + h_below(h_chance(80) ? 6 : 37);
            /* element type: unsigned, signed, or (4 / 8 bytes) float / double; NORMAL, SWAPPED, or (integers) ASCII */
            unsigned ekind = h_below(sz >= 4 ? 3 : 2), fmt = h_below(ekind == 2 ? 2 : 3);
            k += (size_t) sprintf(script + k, "rA,%u,%u,", sz, fmt); if (!cnt) script[k++] = h_chance(50) ? 'N' : '-';
            for (i = 0; i < cnt * sz; i++) k += (size_t) sprintf(script + k, "%02x", h_chance(85) ? h_below(256) : (h_chance(50) ? 0xffu : 0x80u));
            k += (size_t) sprintf(script + k, ",%u", ekind);
        } else if (kind < 9) {                                /* streamed: header then data chunks */
            unsigned sent = 0, target = len, mode = h_below(5);   /* 0 exact, 1 short, 2 over-length chunk then rest, 3 zero-length chunks, 4 exact */
            k += (size_t) sprintf(script + k, "rKH,%u", len);
            if (mode == 1 && target) target = h_below(target);
            while (sent < target) {
                unsigned c = 1 + h_below(target - sent), j;
                if (mode == 2 && h_chance(40)) { k += (size_t) sprintf(script + k, "/rKD,"); for (j = 0; j < (len - sent) + 1 + h_below(3); j++) k += (size_t) sprintf(script + k, "%02x", h_below(256)); mode = 0; }
                if (mode == 3 && h_chance(30)) k += (size_t) sprintf(script + k, "/rKD,%c", h_chance(50) ? 'N' : '-');
                k += (size_t) sprintf(script + k, "/rKD,"); for (j = 0; j < c; j++) k += (size_t) sprintf(script + k, "%02x", h_below(256));
                sent += c;
            }
            if (len == 0 && h_chance(70)) k += (size_t) sprintf(script + k, "/rKD,%c", h_chance(50) ? 'N' : '-');
        } else if (kind == 9) k += (size_t) sprintf(script + k, "rI,32,1,%x,10", h_below(1000));
        else {                                                /* data without a header of its own: must be refused whatever an earlier unit left open */
            unsigned c = 1 + h_below(8), j;
            k += (size_t) sprintf(script + k, "rKD,"); for (j = 0; j < c; j++) k += (size_t) sprintf(script + k, "%02x", h_below(256));
        }
        if (k > cap - 2000) break;
    }
    script[k] = 0;
    return k;
}

void dom_p17(void) {
    unsigned long n = h_thorough ? 300000 : 30000; static char line[64000], s1[16000], s2[16000], s3[16000];
    for (; n; n--) {
        unsigned shape = h_below(10);
        p17_script(s1, sizeof s1, 0);
        if (shape < 6) { sprintf(line, "P 64 4 423f:1:%s 423f0a", s1); emit_case(line); continue; }
        /* two or three units with scripts of their own, in one message or in consecutive messages: the block accounting of
         * one unit (an unfinished block, say) must not carry into the next */
        p17_script(s2, sizeof s2, 1); p17_script(s3, sizeof s3, 1);
        if (shape < 8) sprintf(line, "P 64 4 423f:1:%s;433f:2:%s 423f3b433f0a", s1, s2);                          /* B?;C? */
        else if (shape == 8) sprintf(line, "P 64 4 423f:1:%s;433f:2:%s;443f:3:%s 423f3b3a433f3b443f0a", s1, s2, s3);   /* B?;:C?;D? */
        else sprintf(line, "P 64 4 423f:1:%s;433f:2:%s 423f0a433f0a", s1, s2);                                      /* B? <nl> C? */
        emit_case(line);
    }
    /* announced lengths around 2^16 and beyond followed by a first data chunk: the chunk must be accepted, the block stays open */
    { static const unsigned big[] = {65535, 65536, 65537, 65540, 100000, 131072, 16777216, 99999999}; int i;
      for (i = 0; i < 8; i++) { sprintf(line, "P 64 4 423f:1:rKH,%u/rKD,6162636465/rKD,-/rKD,66 423f0a", big[i]); emit_case(line); } }
    /* header-only calls for every power of ten up to 10^8 */
    { unsigned p = 1; int i; for (i = 0; i <= 8; i++) { sprintf(line, "P 64 4 423f:1:rKH,%u 423f0a", p); emit_case(line); sprintf(line, "P 64 4 423f:1:rKH,%u 423f0a", p - 1 + (i == 0)); emit_case(line); p *= 10; } }
}

/* P21 ("instrument"): the library's own handlers (script op bI,<name>) bound to the standard headers, a handful of scripted
 * commands that queue errors or answer, and sessions of 1..12 messages; between messages the "firmware" changes condition /
 * event registers with SCPI_RegSet (pseudo-chunk =G<reg>:<hex4>), so that summary bits and service requests come and go. */
static const entry_t ipool[] = {
    {"*CLS", "bI,CLS"}, {"*ESE", "bI,ESE"}, {"*ESE?", "bI,ESEQ"}, {"*ESR?", "bI,ESRQ"}, {"*IDN?", "bI,IDNQ"}, {"*OPC", "bI,OPC"}, {"*OPC?", "bI,OPCQ"},
    {"*RST", "bI,RST"}, {"*SRE", "bI,SRE"}, {"*SRE?", "bI,SREQ"}, {"*STB?", "bI,STBQ"}, {"*TST?", "bI,TSTQ"}, {"*WAI", "bI,WAI"},
    {"SYSTem:ERRor[:NEXT]?", "bI,ERRNEXTQ"}, {"SYSTem:ERRor:COUNt?", "bI,ERRCOUNTQ"}, {"SYSTem:VERSion?", "bI,VERSQ"},
    {"STATus:QUEStionable[:EVENt]?", "bI,QEVENQ"}, {"STATus:QUEStionable:CONDition?", "bI,QCONDQ"},
    {"STATus:QUEStionable:ENABle", "bI,QENAB"}, {"STATus:QUEStionable:ENABle?", "bI,QENABQ"},
    {"STATus:OPERation[:EVENt]?", "bI,OEVENQ"}, {"STATus:OPERation:CONDition?", "bI,OCONDQ"},
    {"STATus:OPERation:ENABle", "bI,OENAB"}, {"STATus:OPERation:ENABle?", "bI,OENABQ"}, {"STATus:PRESet", "bI,PRES"},
    {"STUB", "bI,STUB"}, {"STUB?", "bI,STUBQ"},
    /* 27.. scripted: error pushers of every class, with and without text, answers, mixtures with builtins */
    {"ERR:CMD", "eP,-100,N"}, {"ERR:EXEC", "eP,-222,4142"}, {"ERR:DEV", "eP,-300,N"}, {"ERR:QUERy", "eP,-400,N"}, {"ERR:USER", "eP,100,75736572"},
    {"ERR:PON", "eP,-500,N"}, {"ERR:URQ", "eP,-600,N"}, {"ERR:QUOTe", "eP,-230,6122622263"}, {"ERR:TWO", "eP,-221,N/eP,-310,7478"},
    {"ERR:UNKNown", "eP,-9999,78"}, {"ERR:OPC", "eP,-800,N"},
    {"Q1?", "rI,32,1,1,a"}, {"ECHO?", "pI,32,1,1/rI,32,1,7,a"}, {"SET", "pI,32,1,1"}, {"FAIL", "ret,0"},
    {"MIX:ESR?", "rI,32,1,9,a/bI,ESRQ/bI,STBQ"}, {"MIX:ERR?", "eP,-222,N/bI,ERRCOUNTQ/bI,ERRNEXTQ"}, {"MIX:ESE", "oF,1/bI,ESE/iT"}, {"MIX:CLS", "eP,-100,N/bI,CLS/rI,32,1,3,a"},
};
#define NIPOOL ((int)(sizeof ipool / sizeof ipool[0]))
#define NISTD 27

/* a valid spelling: every keyword wholly in its short or in its long form, optional parts kept or dropped, random case */
static size_t spell_valid(char *out, const char *pattern) {
    const char *p = pattern; size_t k = 0; int skip = 0;
    while (*p) {
        if (*p == '[') { skip = h_chance(50); p++; continue; }
        if (*p == ']') { skip = 0; p++; continue; }
        if (skip) { p++; continue; }
        if (islower((unsigned char) *p)) {
            int drop = h_chance(50);
            while (islower((unsigned char) *p)) { if (!drop) out[k++] = h_chance(50) ? (char) toupper((unsigned char) *p) : *p; p++; }
            continue;
        }
        out[k++] = h_chance(50) ? (char) tolower((unsigned char) *p) : *p; p++;
    }
    out[k] = 0;
    return k;
}

static int is_setter(const char *script) {
    return !strcmp(script, "bI,ESE") || !strcmp(script, "bI,SRE") || !strcmp(script, "bI,QENAB") || !strcmp(script, "bI,OENAB") || !strcmp(script, "oF,1/bI,ESE/iT");
}

static size_t gen_regval(char *out) {
    static const unsigned nice[] = {0, 1, 4, 8, 16, 32, 36, 60, 64, 96, 128, 255, 256, 512, 4096, 32767, 32768, 65535};
    static const char *outside[] = {"65536", "65537", "70000", "131072", "-1", "-32768", "-65536", "2147483647", "2147483648", "-2147483648", "-2147483649", "4294967295", "99999999999"};
    static const char *odd[] = {"ABC", "\"x\"", "1.5", "1e2", "12 V", "(1)", "1,2", "MIN", "#13abc", "1 2", ",", "1,", "'4'", "#H", "+", "32,", "#HFFFFF"};
    unsigned r = h_below(100); size_t k = 0;
    if (r < 66) { unsigned v = h_chance(60) ? nice[h_below(18)] : h_below(65536); k = (size_t) sprintf(out, "%s%u", h_chance(8) ? "+" : "", v); }
    else if (r < 78) { unsigned v = h_chance(50) ? nice[h_below(18)] : h_below(65536), b = h_below(3);
        if (b == 0) k = (size_t) sprintf(out, h_chance(50) ? "#H%X" : "#h%x", v);
        else if (b == 1) k = (size_t) sprintf(out, "#Q%o", v);
        else { int i, started = 0; k = (size_t) sprintf(out, "#B"); for (i = 15; i >= 0; i--) { if ((v >> i) & 1) started = 1; if (started || i == 0) out[k++] = (char)('0' + ((v >> i) & 1)); } out[k] = 0; } }
    else if (r < 86) k = (size_t) sprintf(out, "%s", outside[h_below(13)]);
    else if (r < 90) { out[0] = 0; k = 0; }
    else k = (size_t) sprintf(out, "%s", odd[h_below(17)]);
    return k;
}

static size_t gen_imsg(char *out, const int *idx, int n) {
    size_t k = 0; int u, units = h_chance(65) ? 1 : 1 + (int) h_below(4);
    static const char *undef[] = { "FOO", "*XYZ?", "SYST:NOPE", "STAT:QUES:ENAB:X", "*ESE:X", "STATus", "SYST:ERR:NEXT:Q?", "*" };
    for (u = 0; u < units; u++) {
        const entry_t *e = &ipool[idx[h_below((unsigned) n)]]; const char *pat; char tmp[96]; int query;
        /* register writers and error pushers more often than their share of the table */
        { unsigned want = h_below(100); int tries;
          for (tries = 0; tries < 6; tries++) {
              if (want < 25 ? is_setter(e->script) : want < 40 ? !strncmp(e->script, "eP", 2) : 1) break;
              e = &ipool[idx[h_below((unsigned) n)]];
          } }
        pat = e->pattern; query = pat[strlen(pat) - 1] == '?';
        if (u) { out[k++] = ';'; if (h_chance(15)) out[k++] = ' '; }
        if (h_chance(3)) continue;
        if (h_chance(5)) { k += (size_t) sprintf(out + k, "%s", undef[h_below(8)]); if (h_chance(30)) k += (size_t) sprintf(out + k, " 1"); continue; }
        if (u && h_chance(25) && pat[0] != '*') {
            const char *c = strrchr(pat, ':');
            if (c) { spell_valid(tmp, c + 1); k += (size_t) sprintf(out + k, "%s", tmp); }
            else k += spell_valid(out + k, pat);
        } else { if (pat[0] != '*' && h_chance(40)) out[k++] = ':'; k += h_chance(93) ? spell_valid(out + k, pat) : spell_header(out + k, pat, 0); }
        if (is_setter(e->script) || strstr(e->script, "pI,")) {
            size_t l = gen_regval(tmp);
            if (l || h_chance(50)) { out[k++] = ' '; if (h_chance(10)) out[k++] = ' '; memcpy(out + k, tmp, l); k += l; if (h_chance(8)) out[k++] = ' '; }
        } else if (h_chance(query ? 6 : 8)) { out[k++] = ' '; k += gen_regval(out + k); }
    }
    { unsigned t = h_below(100); if (t < 80) out[k++] = '\n'; else if (t < 93) { out[k++] = '\r'; out[k++] = '\n'; } else if (t < 96) out[k++] = '\r'; /* else unterminated: joins the next message */ }
    out[k] = 0;
    return k;
}

void dom_p21(void) {
    unsigned long cnt = h_thorough ? 1200000 : 40000;
    static char line[140000], table[30000], msg[4096]; int idx[40], n;
    static const int evregs[] = {6, 9, 6, 9, 4, 7, 2, 3, 1};   /* OPERC QUESC (twice as often) OPER QUES ESR ESE SRE */
    for (; cnt; cnt--) {
        size_t k; int m, items = 1 + (int) h_below(12), i, extra = 3 + (int) h_below(8);
        int bufsize = h_chance(85) ? 256 : 40 + (int) h_below(60), qcap = h_chance(50) ? 2 + (int) h_below(3) : h_chance(50) ? 16 : 1 + (int) h_below(8);
        n = 0; for (i = 0; i < NISTD; i++) idx[n++] = i;
        for (i = 0; i < extra; i++) idx[n++] = NISTD + (int) h_below((unsigned)(NIPOOL - NISTD));
        for (i = n - 1; i > 0; i--) { int j = (int) h_below((unsigned) i + 1), t = idx[i]; idx[i] = idx[j]; idx[j] = t; }
        build_table_from(ipool, table, idx, n);
        k = (size_t) sprintf(line, "P %d %d %s", bufsize, qcap, table);
        for (m = 0; m < items; m++) {
            if (h_chance(14)) {
                static const unsigned bits[] = {0, 1, 2, 4, 16, 32, 256, 512, 0x8000, 0xffff};
                k += (size_t) sprintf(line + k, " =G%d:%04x", evregs[h_below(9)], h_chance(70) ? bits[h_below(10)] : h_below(65536));
            } else {
                size_t ml = gen_imsg(msg, idx, n), off = 0;
                while (off < ml) {
                    size_t c = h_chance(80) ? ml - off : 1 + h_below((unsigned)(ml - off));
                    line[k++] = ' '; k += chunk_hex(line + k, msg + off, c); off += c;
                }
                if (h_chance(5)) k += (size_t) sprintf(line + k, " -");
            }
            /* status snapshot between the messages: summary bits, latching and class bits are judged there */
            if (h_chance(55)) k += (size_t) sprintf(line + k, " =S");
            if (k > sizeof line - 9000) break;
        }
        k += (size_t) sprintf(line + k, " =S");
        line[k] = 0;
        emit_case(line);
    }
}

/* Domain p09ubig: unit 1 answers 2^15 (thorough: also 2^16, and one more or less) result items: its item count must not leak
 * into unit 2 (';' before unit 2's answer, one terminator).  See dir_p06big for the cost. */
void dom_p09ubig(void) {
    static const long big[] = {32768, 32767, 32769, 65535, 65536, 65537}; int bi, nb = h_thorough ? 6 : 1;
    static char line[1000];
    for (bi = 0; bi < nb; bi++) {
        size_t k = (size_t) sprintf(line, "PU 256 8 4c4e473f:1:rN,%ld;51313f:2:rI,32,1,1,10 ", big[bi]);      /* LNG? , Q1? */
        k += chunk_hex(line + k, "LNG?", 4); k += (size_t) sprintf(line + k, " | "); k += chunk_hex(line + k, ":Q1?", 4);
        line[k] = 0;
        emit_case(line);
    }
}
