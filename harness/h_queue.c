/* Domain Q: error-queue histories through the public API (configurations A and C).
 * Case:  Q <cap> <op>...   ops:  p,<code>,<hexinfo|N>,<len>,<allocok>   push (SCPI_ErrorPushEx)
 *                                o   SCPI_ErrorPop by a caller who then frees the text
 *                                s   SYSTem:ERRor[:NEXT]? handler, response parsed back
 *                                k   SCPI_ErrorClear          c   SCPI_ErrorCount
 * Observation, one token per op:  P<cb>/<cb>,L<live>   O<code>,<hextext|N>,L<live>   K,L<live>   C<n> */
#include "h_env.h"

static const scpi_command_t no_cmds[] = { SCPI_CMD_LIST_END };

/* independent reader of  <code>,"<desc>[;<text>]"  : returns text start or NULL */
static int parse_syserr(const char *out, size_t len, int *code, char *text, size_t cap, int *has_text) {
    size_t i = 0, n = 0; char raw[2048]; const char *desc; size_t dl;
    char *end;
    long c = strtol(out, &end, 10);
    *code = (int) c; *has_text = 0;
    i = (size_t)(end - out);
    if (i + 1 >= len || out[i] != ',' || out[i + 1] != '"') return 0;
    i += 2;
    while (i < len) {
        if (out[i] == '"') { if (i + 1 < len && out[i + 1] == '"') { raw[n++] = '"'; i += 2; continue; } break; }
        if (n + 1 >= sizeof raw) return 0;
        raw[n++] = out[i++];
    }
    if (i >= len || out[i] != '"' || i + 1 != len) return 0;
    raw[n] = 0;
    desc = SCPI_ErrorTranslate((int16_t) c); dl = strlen(desc);
    if (strncmp(raw, desc, dl) != 0) return 0;
    if (raw[dl] == 0) return 1;
    if (raw[dl] != ';') return 0;
    *has_text = 1;
    snprintf(text, cap, "%s", raw + dl + 1);
    return 1;
}

void run_queue(const char *input) {
    h_env_t e; char *copy = strdup(input), *tok, *save = NULL; int cap;
    h_set_case("%s", input);
    tok = strtok_r(copy, " ", &save);            /* Q */
    tok = strtok_r(NULL, " ", &save); cap = tok ? atoi(tok) : 1;
    h_alloc_reset();
    h_env_init(&e, no_cmds, 16, cap, 64);
    printf("%s =>", input);
    while ((tok = strtok_r(NULL, " ", &save))) {
        h_env_clear_capture(&e);
        if (tok[0] == 'p') {
            int code, ok, k; unsigned len; char hex[1024]; unsigned char info[512]; size_t il;
            if (sscanf(tok, "p,%d,%1023[^,],%u,%d", &code, hex, &len, &ok) != 4) continue;
            il = h_unhex(hex, info, sizeof info - 1); info[il] = 0;
            h_fail_strndup = !ok;
            SCPI_ErrorPushEx(&e.ctx, (int16_t) code, hex[0] == 'N' ? NULL : (char *) info, len);
            h_fail_strndup = 0;
            printf(" P");
            for (k = 0; k < e.n_errcb; k++) printf("%s%d", k ? "/" : "", e.errcb[k]);
            printf(",L%d", h_live_allocs());
        } else if (tok[0] == 'o') {
            scpi_error_t err;
            SCPI_ErrorPop(&e.ctx, &err);
            printf(" O%d,", (int) err.error_code);
#if USE_DEVICE_DEPENDENT_ERROR_INFORMATION
            h_hexs(stdout, err.device_dependent_info);
#if USE_MEMORY_ALLOCATION_FREE
            free(err.device_dependent_info);
#endif
#else
            printf("N");
#endif
            printf(",L%d", h_live_allocs());
        } else if (tok[0] == 's') {
            int code = 0, has = 0; char text[2048];
            e.ctx.output_count = 0;
            SCPI_SystemErrorNextQ(&e.ctx);
            if (!parse_syserr(e.out, e.out_len, &code, text, sizeof text, &has)) {
                printf(" O?"); h_hex(stdout, e.out, e.out_len);
            } else {
                printf(" O%d,", code);
                if (has) h_hexs(stdout, text); else printf("N");
            }
            printf(",L%d", h_live_allocs());
        } else if (tok[0] == 'k') {
            SCPI_ErrorClear(&e.ctx);
            printf(" K,L%d", h_live_allocs());
        } else if (tok[0] == 'c') {
            printf(" C%d", (int) SCPI_ErrorCount(&e.ctx));
        }
    }
    printf("\n");
    SCPI_ErrorClear(&e.ctx);
    h_env_free(&e);
    free(copy);
}

static const int codes[] = {-100, -113, -200, -350, -410, 5, 0, 32767, -32768, -222, -310};
static const char *texts[] = {"N", "N", "41", "4142", "612062", "2241223b", "7a7a7a7a7a7a7a7a7a7a", "-"};

static size_t gen_op(char *buf, size_t cap, unsigned kind) {
    switch (kind) {
        case 0: case 1: case 2: {
            const char *t = texts[h_below(8)];
            unsigned len = h_chance(70) ? 0 : h_below(6);
            return (size_t) snprintf(buf, cap, " p,%d,%s,%u,%d", codes[h_below(11)], t, len, h_chance(85) ? 1 : 0);
        }
        case 3: return (size_t) snprintf(buf, cap, " o");
        case 4: return (size_t) snprintf(buf, cap, " s");
        case 5: return (size_t) snprintf(buf, cap, " c");
        default: return (size_t) snprintf(buf, cap, " k");
    }
}

void dom_queue(void) {
    /* exhaustive: all op sequences up to length L over a 9-letter alphabet, capacities 1..4 */
    static const char *alpha[] = {" p,-100,N,0,1", " p,5,4142,0,1", " p,-200,4142,1,1", " p,-113,612062,0,0",
                                  " p,7,-,0,1", " o", " s", " k", " c"};
    int L = h_thorough ? 6 : 5, cap, len; unsigned long idx, total; static char in[60000];
    for (cap = 1; cap <= 4; cap++)
        for (len = 1; len <= L; len++) {
            total = 1; { int i; for (i = 0; i < len; i++) total *= 9; }
            for (idx = 0; idx < total; idx++) {
                unsigned long r = idx; int i; size_t n;
                n = (size_t) snprintf(in, sizeof in, "Q %d", cap);
                for (i = 0; i < len; i++) { n += (size_t) snprintf(in + n, sizeof in - n, "%s", alpha[r % 9]); r /= 9; }
                if (h_mine_str(in)) run_queue(in);
            }
        }
    /* large capacities (the index fields are 16 bits wide; a queue of N entries holds N errors whatever N): fill beyond the
     * capacity, count, drain in order, clear a partly filled queue and use it again */
    { static const int caps[] = {100, 127, 128, 129, 200, 255, 256, 257, 300, 511, 512, 1000}; unsigned long n = h_thorough ? 120 : 24;
      for (; n; n--) {
          size_t k; int i, fill, pops;
          cap = caps[n % 12];
          k = (size_t) snprintf(in, sizeof in, "Q %d", cap);
          fill = cap - 2 + (int) h_below(5);
          for (i = 0; i < fill; i++) k += (size_t) snprintf(in + k, sizeof in - k, " p,%d,%s,0,1", (i % 2000) + 1, (i % 7 == 3) ? "4142" : "N");
          k += (size_t) snprintf(in + k, sizeof in - k, " c");
          pops = h_chance(50) ? fill + 1 : (int) h_below((unsigned) fill);
          for (i = 0; i < pops; i++) k += (size_t) snprintf(in + k, sizeof in - k, "%s", (i % 5 == 4) ? " s" : " o");
          k += (size_t) snprintf(in + k, sizeof in - k, " c k c p,-100,N,0,1 p,5,4142,0,1 c o o o");
          if (h_mine_str(in)) run_queue(in);
      } }
    /* random histories */
    { unsigned long n = h_thorough ? 20000 : 3000;
      for (; n; n--) {
          size_t k; unsigned ops = 1 + h_below(h_thorough ? 200 : 60); unsigned i;
          cap = 1 + (int) h_below(h_chance(80) ? 4 : 12);
          k = (size_t) snprintf(in, sizeof in, "Q %d", cap);
          for (i = 0; i < ops && k + 64 < sizeof in; i++) k += gen_op(in + k, sizeof in - k, h_below(8));
          if (h_mine_str(in)) run_queue(in);
      } }
}
