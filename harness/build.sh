#!/bin/sh
# usage: build.sh <cfg letter> <outdir>   — builds the harness against /repo's working tree
set -e
CFG="$1"; OUT="$2"; LIBSTD=""; REPO="${VERIF_REPO:-/repo}"
HERE="$(cd "$(dirname "$0")" && pwd)"
case "$CFG" in
  A) FL="" ;;
  B) FL="-DUSE_MEMORY_ALLOCATION_FREE=0" ;;
  C) FL="-DUSE_DEVICE_DEPENDENT_ERROR_INFORMATION=0" ;;
  D) FL="-DUSE_CUSTOM_DTOSTRE=1" ;;
  # E: the library sources in strict ISO C99 (no _POSIX_C_SOURCE): cc.h then selects the library's own fall-backs
  #    OUR_strncasecmp / BSD_strnlen / OUR_strndup instead of the libc functions (the harness itself is compiled as usual)
  E) FL=""; LIBSTD="-std=c99" ;;
  # F: everything as GNU C89: no <stdbool.h>, types.h declares `typedef unsigned char bool` (scpi_bool_t is an 8-bit integer)
  F) FL="-std=gnu89" ;;
  *) echo "bad cfg"; exit 2 ;;
esac
mkdir -p "$OUT"
CF="-g -O1 -fsanitize=address,undefined -fno-sanitize-recover=all -fno-omit-frame-pointer -DSCPI_PARSER_VERIF $FL -I$REPO/libscpi/inc -I$REPO/libscpi/src -I$HERE"
# compile in parallel
pids=""
for f in $REPO/libscpi/src/*.c $HERE/h_*.c; do
  o="$OUT/$(basename "$f" .c).o"
  EXTRA=""
  case "$f" in */libscpi/src/*) EXTRA="$LIBSTD" ;; esac
  # utils.c: file-local functions (scpi_ecvt …) are made visible to the harness; nothing else changes
  case "$f" in */libscpi/src/utils.c) EXTRA="$EXTRA -Dstatic=" ;; esac
  ( gcc $CF $EXTRA -w -c "$f" -o "$o" ) &
  pids="$pids $!"
done
for p in $pids; do wait $p || exit 1; done
gcc -fsanitize=address,undefined -Wl,--wrap=strndup,--wrap=free $OUT/*.o -lm -o "$OUT/h"
