/* Domain L: every token recogniser of lexer.c and the program-data / unit layer of parser.c on the same
 * (buffer, position).  The buffer is an exact-size heap block WITHOUT terminating NUL, so any read at or
 * beyond `len` is an ASan report.  Case:  L <hexbuf> <pos>
 * Observation: one field per recogniser, '|' separated:  <type>,<ptr>,<len>,<newpos>,<ret>
 *   order: ws hdr chr dec suffix nondec str blk expr comma semi colon nl spec('!') data all(+count) unit
 *   unit = hdrtype,hdrptr,hdrlen,datatype,dataptr,datalen,nparams,termination,consumed  (on buf[pos..]) */
#include "h_common.h"

typedef int (*lexfn)(lex_state_t *, scpi_token_t *);
static int lex_spec(lex_state_t *s, scpi_token_t *t) { return scpiLex_SpecificCharacter(s, t, '!'); }

static void garbage(scpi_token_t *t, char *base) { t->type = (scpi_token_type_t) 0x5a; t->len = 12345; t->ptr = base + 7777; }

static long off(const char *p, const char *base) { return p ? (long)(p - base) : -1; }

void run_lexer(const char *input) {
    static const lexfn fns[] = { scpiLex_WhiteSpace, scpiLex_ProgramHeader, scpiLex_CharacterProgramData,
        scpiLex_DecimalNumericProgramData, scpiLex_SuffixProgramData, scpiLex_NondecimalNumericData,
        scpiLex_StringProgramData, scpiLex_ArbitraryBlockProgramData, scpiLex_ProgramExpression,
        scpiLex_Comma, scpiLex_Semicolon, scpiLex_Colon, scpiLex_NewLine, lex_spec, scpiParser_parseProgramData };
    char hex[4200]; unsigned pos; unsigned char tmp[2100]; size_t n, i; char *mem;
    if (sscanf(input, "L %4199s %u", hex, &pos) != 2) return;
    h_set_case("%s", input);
    n = h_unhex(hex, tmp, sizeof tmp);
    mem = (char *) malloc(n ? n : 1);
    memcpy(mem, tmp, n);
    if (pos > n) pos = (unsigned) n;
    printf("%s =>", input);
    for (i = 0; i < sizeof fns / sizeof fns[0]; i++) {
        lex_state_t st; scpi_token_t tok; int r;
        st.buffer = mem; st.pos = mem + pos; st.len = (int) n;
        garbage(&tok, mem);
        r = fns[i](&st, &tok);
        printf("%s%d,%ld,%d,%ld,%d", i ? "|" : " ", (int) tok.type, off(tok.ptr, mem), tok.len, off(st.pos, mem), r);
    }
    {   lex_state_t st; scpi_token_t tok; int r, cnt = 777;
        st.buffer = mem; st.pos = mem + pos; st.len = (int) n;
        garbage(&tok, mem);
        r = scpiParser_parseAllProgramData(&st, &tok, &cnt);
        printf("|%d,%ld,%d,%ld,%d,%d", (int) tok.type, off(tok.ptr, mem), tok.len, off(st.pos, mem), r, cnt);
    }
    {   scpi_parser_state_t ps; int r;
        memset(&ps, 0x5a, sizeof ps);
        r = scpiParser_detectProgramMessageUnit(&ps, mem + pos, (int)(n - pos));
        printf("|%d,%ld,%d,%d,%ld,%d,%d,%d,%d", (int) ps.programHeader.type, off(ps.programHeader.ptr, mem + pos), ps.programHeader.len,
               (int) ps.programData.type, off(ps.programData.ptr, mem + pos), ps.programData.len, ps.numberOfParameters, (int) ps.termination, r);
    }
    printf("\n");
    free(mem);
}

/* one representative of every character class the recognisers distinguish */
static const unsigned char alpha24[] = { 'A', 'e', 'z', '0', '1', '7', '9', ' ', '\t', '\n', '\r', '#', 'H', 'b', 'q',
                                         '"', '\'', '(', ')', ',', ';', ':', '*', '?', '+', '-', '.', '/' };
#define NALPHA 28
static const unsigned char extra[] = { '+', '-', '.', '/', '_', '!', '@', 0x00, 0x80, 0xFF, 'E', 'F', 'g', 'Q', '2', '8', '$' };

static void emit(const unsigned char *s, size_t n, unsigned pos) {
    char in[4300]; size_t k = 2, i;
    in[0] = 'L'; in[1] = ' ';
    if (!n) in[k++] = '-';
    for (i = 0; i < n; i++) k += (size_t) sprintf(in + k, "%02x", s[i]);
    sprintf(in + k, " %u", pos);
    if (h_mine_str(in)) run_lexer(in);
}

/* grammar-directed fragments */
static const char *frags[] = { "CONF", ":VOLT", ":DC", "?", "*IDN", "*", ":", " ", "  ", "\t", ",", ";", "\n", "\r\n", "\r",
    "1", "12", "1.5", "-1.", "+.5", ".", "e", "E", "E5", "e-3", " E 5", "E+", "V", " mV", "/s", "m/s.k-2", "OHM", "#H", "#HfF", "#Q17", "#Q8", "#B01", "#B2",
    "#", "#1", "#0", "#13abc", "#15ab", "#210abcdefghij", "#9", "#213", "\"", "\"ab\"", "\"a\"\"b\"", "'", "'x'", "''''", "\"\"\"", "(", ")", "(1:2,3)", "(@1!2)",
    "(a;b)", "(\")", "MIN", "abc_1", "_", "a1", "1a", "\x80", "\xff", "\x01", "!", "@", "$", "-", "+", "1e", "1 e", "1 e 5", "1e+ 5" };

void dom_lexer(void) {
    unsigned char s[64]; int L = h_thorough ? 5 : 4, len, i; unsigned long idx, total;
    /* exhaustive: all strings up to length L over the class alphabet */
    for (len = 0; len <= L; len++) {
        total = 1; for (i = 0; i < len; i++) total *= NALPHA;
        for (idx = 0; idx < total; idx++) {
            unsigned long r = idx;
            for (i = 0; i < len; i++) { s[i] = alpha24[r % NALPHA]; r /= NALPHA; }
            emit(s, (size_t) len, 0);
        }
    }
    /* exhaustive over ALL byte values: every string of length 1 and 2, and every byte value in every context of a
     * list of token prefixes / suffixes — a character-class predicate that is wrong for a single byte value
     * (which the class alphabet may not contain) shows up here whatever recogniser and position it is used in */
    {   static const char *pre[] = { "", "A", "a1", "A_", ":", "A:", "*", "*A", "A?", "1", "1.", ".", "1e", "1E", "1E+", "1e-", "1e1", "1 ", "1 e", "+", "-",
            "#", "#H", "#h", "#HF", "#Q", "#q", "#Q1", "#B", "#b", "#B1", "#1", "#2", "#21", "#9", "#0", "\"", "\"a", "\"a\"", "'", "'a", "'a'",
            "(", "(1", "(a)", " ", "\t", "A ", "1V", "1 m", "1 m/", "1 m.", "1 m2", "1 m-", "A,", "A;", "\r", "\n" };
        static const char *suf[] = { "", "1", "A", "\"", "'", ")", " 1", "\n" };
        unsigned b, c; size_t p, q;
        for (b = 0; b < 256; b++) {
            for (c = 0; c < 256; c++) { s[0] = (unsigned char) b; s[1] = (unsigned char) c; emit(s, 2, 0); }
            for (p = 0; p < sizeof pre / sizeof pre[0]; p++) for (q = 0; q < sizeof suf / sizeof suf[0]; q++) {
                size_t pl = strlen(pre[p]), sl = strlen(suf[q]);
                memcpy(s, pre[p], pl); s[pl] = (unsigned char) b; memcpy(s + pl + 1, suf[q], sl);
                emit(s, pl + 1 + sl, 0);
                if (pl && q == 0) emit(s, pl + 1, (unsigned) pl);      /* recognisers started AT the byte, behind the prefix */
            }
        } }
    /* sampled: longer strings over the wider alphabet, at every offset of the buffer */
    { unsigned long n = h_thorough ? 4000000 : 250000;
      for (; n; n--) {
          len = 1 + (int) h_below(h_thorough ? 9 : 8);
          for (i = 0; i < len; i++) s[i] = h_chance(75) ? alpha24[h_below(NALPHA)] : extra[h_below(17)];
          emit(s, (size_t) len, h_chance(60) ? 0 : h_below((unsigned) len + 1));
      } }
    /* grammar-directed: concatenations of fragments, cut at a random point */
    { unsigned long n = h_thorough ? 1500000 : 150000; unsigned char buf[512];
      for (; n; n--) {
          size_t k = 0; int parts = 1 + (int) h_below(7);
          for (i = 0; i < parts; i++) { const char *f = frags[h_below(sizeof frags / sizeof frags[0])]; size_t fl = strlen(f);
              if (k + fl < sizeof buf) { memcpy(buf + k, f, fl); k += fl; } }
          if (h_chance(15) && k) k = h_below((unsigned) k + 1);
          emit(buf, k, h_chance(70) ? 0 : h_below((unsigned) k + 1));
      } }
    /* long tokens */
    { int t; unsigned char big[1200];
      for (t = 0; t < 40; t++) {
          size_t k = 0, m = 100 + h_below(900), j;
          switch (t % 5) {
              case 0: for (j = 0; j < m; j++) big[k++] = (unsigned char)('0' + h_below(10)); break;
              case 1: big[k++] = '"'; for (j = 0; j < m; j++) { big[k++] = (unsigned char)(1 + h_below(127)); if (big[k - 1] == '"') big[k++] = '"'; } big[k++] = '"'; break;
              case 2: k += (size_t) sprintf((char *) big, "#3%03u", (unsigned) m); for (j = 0; j < m; j++) big[k++] = (unsigned char) h_below(256); break;
              case 3: big[k++] = '('; for (j = 0; j < m; j++) big[k++] = (unsigned char)('0' + h_below(10)); big[k++] = ')'; break;
              default: for (j = 0; j < m; j++) big[k++] = (j % 9 == 8) ? ':' : (unsigned char)('A' + h_below(26)); break;
          }
          emit(big, k, 0);
      } }
}
