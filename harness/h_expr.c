/* Domain X: numeric and channel list walkers of expression.c.
 * Case:  X <hexbody> <index> <cap>      (body = text between the parentheses of an expression parameter)
 * Observation:  n<res>[,<isRange>,<hexfrom>,<hexto|->,<intfrom>,<intto|->,<dblfrom bits>,<dblto bits|->]  c<res>,<errors pushed>[,<isRange>,<dims>,<from v/v/..|->,<to v/v/..|->],<canary ok> */
#include "h_env.h"

static const scpi_command_t no_cmds[] = { SCPI_CMD_LIST_END };

void run_expr(const char *input) {
    static char hex[4096]; unsigned index, cap; static unsigned char body[2048]; size_t bl, i; char *mem; scpi_parameter_t param; h_env_t e;
    if (sscanf(input, "X %4095s %u %u", hex, &index, &cap) != 3) return;
    h_set_case("%s", input);
    bl = h_unhex(hex, body, sizeof body);
    mem = (char *) malloc(bl + 2); mem[0] = '('; memcpy(mem + 1, body, bl); mem[bl + 1] = ')';     /* exact size, no NUL */
    param.type = SCPI_TOKEN_PROGRAM_EXPRESSION; param.ptr = mem; param.len = (int) bl + 2;
    h_env_init(&e, no_cmds, 16, 8, 64);
    printf("%s =>", input);
    {   scpi_bool_t rng = FALSE; scpi_parameter_t f, t; scpi_expr_result_t r; int32_t vf = -777, vt = -777; scpi_bool_t rng2 = FALSE;
        memset(&f, 0x5a, sizeof f); memset(&t, 0x5a, sizeof t);
        r = SCPI_ExprNumericListEntry(&e.ctx, &param, (int) index, &rng, &f, &t);
        printf(" n%d", (int) r);
        if (r == SCPI_EXPR_OK) {
            printf(",%d,", rng ? 1 : 0); h_hex(stdout, f.ptr, (size_t) f.len); printf(",");
            if (rng) h_hex(stdout, t.ptr, (size_t) t.len); else printf("-");
            SCPI_ExprNumericListEntryInt(&e.ctx, &param, (int) index, &rng2, &vf, &vt);
            printf(",%d,", vf); if (rng2) printf("%d", vt); else printf("-");
            {   /* the double variant of the same entry */
                double df = -7.0, dt = -7.0; scpi_bool_t rng3 = FALSE; uint64_t b;
                SCPI_ExprNumericListEntryDouble(&e.ctx, &param, (int) index, &rng3, &df, &dt);
                memcpy(&b, &df, 8); printf(",%016" PRIx64 ",", b);
                if (rng3) { memcpy(&b, &dt, 8); printf("%016" PRIx64, b); } else printf("-");
            }
        }
    }
    {   scpi_bool_t rng = FALSE; size_t dims = 777; scpi_expr_result_t r; int k;
        int32_t *vf = (int32_t *) malloc(sizeof(int32_t) * (cap ? cap : 1) + 8), *vt = (int32_t *) malloc(sizeof(int32_t) * (cap ? cap : 1) + 8);
        for (i = 0; i < (cap ? cap : 1) + 2; i++) { vf[i] = -777; vt[i] = -777; }
        h_env_clear_capture(&e);
        /* capacity 0 may come with no arrays at all (a counting pass): the library tolerates NULL value arrays when length is 0 */
        if (cap == 0 && ((index + bl) & 1)) r = SCPI_ExprChannelListEntry(&e.ctx, &param, (int) index, &rng, NULL, NULL, 0, &dims);
        else r = SCPI_ExprChannelListEntry(&e.ctx, &param, (int) index, &rng, vf, vt, cap, &dims);
        printf(" c%d,", (int) r);
        if (!e.n_errcb) printf("-"); for (k = 0; k < e.n_errcb; k++) printf("%s%d", k ? "/" : "", e.errcb[k]);
        if (r == SCPI_EXPR_OK) {
            size_t n = dims < cap ? dims : cap;
            printf(",%d,%zu,", rng ? 1 : 0, dims);
            if (!n) printf("-"); for (i = 0; i < n; i++) printf("%s%d", i ? "/" : "", vf[i]);
            printf(",");
            if (!rng || !n) printf("-"); else for (i = 0; i < n; i++) printf("%s%d", i ? "/" : "", vt[i]);
        }
        /* nothing stored beyond the announced capacity */
        printf(",%d", (vf[cap] == -777 && vf[cap + 1] == -777 && vt[cap] == -777 && vt[cap + 1] == -777) ? 1 : 0);
        free(vf); free(vt);
    }
    printf("\n");
    SCPI_ErrorClear(&e.ctx);
    h_env_free(&e);
    free(mem);
}

static void emit(const unsigned char *s, size_t n, unsigned index, unsigned cap) {
    static char in[4300]; size_t k = 2, i;
    in[0] = 'X'; in[1] = ' ';
    if (!n) in[k++] = '-';
    for (i = 0; i < n; i++) k += (size_t) sprintf(in + k, "%02x", s[i]);
    sprintf(in + k, " %u %u", index, cap);
    if (h_mine_str(in)) run_expr(in);
}

void dom_expr(void) {
    static const unsigned char alpha[] = { '1', '7', '-', '.', ':', ',', '!', '@', ' ', 'a' };
    unsigned char s[64]; int L = h_thorough ? 6 : 5, len, i; unsigned long idx, total, n; unsigned index, cap;
    /* exhaustive bodies over the 10-symbol alphabet, queried at several indices and capacities */
    for (len = 0; len <= L; len++) {
        total = 1; for (i = 0; i < len; i++) total *= 10;
        for (idx = 0; idx < total; idx++) {
            unsigned long r = idx;
            for (i = 0; i < len; i++) { s[i] = alpha[r % 10]; r /= 10; }
            emit(s, (size_t) len, (unsigned)(idx % 4), (unsigned)((idx / 4) % 4));
            if (len <= 3) for (index = 0; index < 4; index++) for (cap = 0; cap < 3; cap++) emit(s, (size_t) len, index, cap);
        }
    }
    /* grammar-generated lists of up to 8 entries and 5 dimensions, every index 0..9, capacities 0..4 */
    n = h_thorough ? 300000 : 30000;
    for (; n; n--) {
        char b[512]; size_t k = 0; unsigned entries = 1 + h_below(8), dimsn = 1 + h_below(5), e, d; int chan = h_chance(60);
        if (chan) b[k++] = '@';
        for (e = 0; e < entries; e++) {
            unsigned parts = h_chance(35) ? 2 : 1, p;
            if (e) b[k++] = ',';
            for (p = 0; p < parts; p++) {
                if (p) b[k++] = ':';
                for (d = 0; d < (chan ? dimsn : 1); d++) {
                    if (d) b[k++] = '!';
                    if (chan || h_chance(70)) k += (size_t) sprintf(b + k, "%s%u", h_chance(15) ? "-" : "", h_below(h_chance(80) ? 100 : 2000000000u));
                    else k += (size_t) sprintf(b + k, "%u.%u%s", h_below(100), h_below(100), h_chance(30) ? "e2" : "");
                }
            }
        }
        /* occasional damage */
        if (h_chance(12) && k) { unsigned at = h_below((unsigned) k); b[at] = ",:!@ a.-1"[h_below(9)]; }
        if (h_chance(4) && k) k = h_below((unsigned) k + 1);
        for (index = 0; index < 10; index++) if (h_chance(index < entries + 2 ? 60 : 15)) emit((unsigned char *) b, k, index, h_below(5));
    }
}
