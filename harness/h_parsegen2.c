/* Directed generators of domain P that answer seeded changes the random generators of h_parsegen.c did not reach
 * (DESIGN.md section 15, round 8).  Each function emits a few hundred cases in the format of h_parse.c and is called
 * after the random generator of its domain (h_main.c). */
#include "h_common.h"
#include <ctype.h>
void run_parse(const char *input);

static size_t hexs(char *out, const char *s, size_t n) { size_t i, k = 0; for (i = 0; i < n; i++) k += (size_t) sprintf(out + k, "%02x", (unsigned char) s[i]); if (!n) { out[0] = '-'; k = 1; } out[k] = 0; return k; }
static void emit2(const char *line) { if (h_mine_str(line)) run_parse(line); }

typedef struct { const char *pattern; const char *script; } ent_t;

/* table text: entries in the given order, tag = position + 1 */
static size_t table_of(char *out, const ent_t *e, int n) {
    size_t k = 0; int i;
    for (i = 0; i < n; i++) {
        if (i) out[k++] = ';';
        k += hexs(out + k, e[i].pattern, strlen(e[i].pattern));
        k += (size_t) sprintf(out + k, ":%d:%s", i + 1, e[i].script);
    }
    out[k] = 0;
    return k;
}

/* feed `stream` in 1..3 chunks */
static size_t chunks_of(char *out, const char *stream, size_t n) {
    size_t k = 0, off = 0;
    while (off < n) {
        size_t c = h_chance(55) ? n - off : 1 + h_below((unsigned)(n - off));
        out[k++] = ' '; k += hexs(out + k, stream + off, c); off += c;
    }
    out[k] = 0;
    return k;
}

static void randcase(char *s) { for (; *s; s++) if (isalpha((unsigned char) *s) && h_chance(40)) *s = (char)(islower((unsigned char) *s) ? toupper((unsigned char) *s) : tolower((unsigned char) *s)); }

/* ---- C02: overlapping patterns.  `specific` and `generic` both accept H2, only `generic` accepts H1.  Whatever ran before,
 * H2 must run the entry that comes FIRST in the table.  (A dispatcher that remembers the entry of the previous unit, tries
 * the table from the back, or caches by header length gets this wrong only after H1.) */
void dir_p02(void) {
    static const struct { const char *specific, *generic, *h1, *h2; } pairs[] = {
        {"TEST:CHANnel#", "TEST:CHANnel#[:SUB#]", "TEST:CHAN2:SUB3", "TEST:CHAN4"},
        {"VOLTage:DC?", "[:MEASure]:VOLTage:DC?", "MEAS:VOLT:DC?", "VOLT:DC?"},
        {"TEST:C", "TEST[:A]:C", "TEST:A:C", "TEST:C"},
        {"OUTPut:STATe", "OUTPut[:ALL]:STATe", "OUTP:ALL:STAT", "OUTPUT:STATE"},
        {"SYSTem:ERRor?", "SYSTem:ERRor[:NEXT]?", "SYST:ERR:NEXT?", "SYST:ERR?"},
    };
    static const ent_t filler[] = { {"*CLS", "iT"}, {"VOLT", "iT"}, {"Q1?", "iT/rI,32,1,1,10"}, {"TEST:A", "iT"}, {"*IDN?", "iT"}, {"FREQuency", "iT"} };
    unsigned long n = h_thorough ? 6000 : 600;
    static char line[9000], table[4000], stream[600];
    for (; n; n--) {
        ent_t e[8]; int ne = 0, i, p = (int) h_below(5), specfirst = h_chance(70), nf = (int) h_below(3);
        size_t k, sl = 0; char h1[64], h2[64], f[32]; unsigned shape = h_below(6);
        for (i = 0; i < nf; i++) e[ne++] = filler[h_below(6)];
        e[ne].pattern = specfirst ? pairs[p].specific : pairs[p].generic; e[ne++].script = "iT";
        if (h_chance(50)) e[ne++] = filler[h_below(6)];
        e[ne].pattern = specfirst ? pairs[p].generic : pairs[p].specific; e[ne++].script = "iT";
        if (h_chance(50)) e[ne++] = filler[h_below(6)];
        table_of(table, e, ne);
        strcpy(h1, pairs[p].h1); strcpy(h2, pairs[p].h2); randcase(h1); randcase(h2);
        strcpy(f, h_chance(50) ? "*CLS" : "VOLT");
        switch (shape) {
            case 0: sl = (size_t) sprintf(stream, "%s\n%s\n", h1, h2); break;                       /* two messages */
            case 1: sl = (size_t) sprintf(stream, "%s;:%s\n", h1, h2); break;                        /* one message */
            case 2: sl = (size_t) sprintf(stream, "%s\nNOSUCH\n%s\n", h1, h2); break;                /* an undefined header in between */
            case 3: sl = (size_t) sprintf(stream, "%s;:%s;:%s\n", h2, h1, h2); break;
            case 4: sl = (size_t) sprintf(stream, "%s\n%s\n%s\n%s\n", h1, h1, h2, h2); break;
            default: sl = (size_t) sprintf(stream, "%s\r\n%s;:%s\n", h1, f, h2); break;              /* another entry in between */
        }
        k = (size_t) sprintf(line, "P 256 %d %s", 4 + (int) h_below(12), table);
        k += chunks_of(line + k, stream, sl);
        emit2(line);
    }
}

/* ---- C05: a handler reports its OWN error with a positive (device designer) code.  It did report an error: no -200 is
 * added, its unread parameters raise no -108, the message is not a success. */
void dir_p05(void) {
    static const ent_t pool[] = {
        {"EPOS", "eP,100,N"}, {"EPOSF", "eP,100,N/ret,0"}, {"EPOSP", "eP,300,4142/pI,32,1,0"}, {"EPOS1", "eP,1,N"}, {"EPOSMAX", "eP,32767,N/ret,0"},
        {"ENEG", "eP,-230,N"}, {"ENEGF", "eP,-222,4142/ret,0"}, {"I32", "pI,32,1,1"}, {"NOP", "iT"}, {"FAIL", "ret,0"}, {"Q1?", "rI,32,1,1,10"},
        {"EPOSQ?", "eP,200,N/rI,32,1,5,10"}, {"PEPOS", "pI,32,1,1/eP,7,N"},
    };
    static const char *msgs[] = { "EPOS", "EPOS 1", "EPOS 1,2", "EPOSF", "EPOSF 5", "EPOSP 5", "EPOSP 5,6", "EPOSP", "EPOS1", "EPOS1 \"x\"", "EPOSMAX", "EPOSMAX 1",
        "ENEG", "ENEG 1", "ENEGF", "I32 5", "I32", "NOP", "NOP 1", "FAIL", "Q1?", "EPOSQ?", "EPOSQ? 3", "PEPOS 4", "PEPOS 4,5", "PEPOS" };
    unsigned long n = h_thorough ? 8000 : 800;
    static char line[9000], table[4000], stream[600];
    for (; n; n--) {
        ent_t e[13]; int i, j, units = 1 + (int) h_below(3); size_t k, sl = 0;
        for (i = 0; i < 13; i++) e[i] = pool[i];
        for (i = 12; i > 0; i--) { ent_t t; j = (int) h_below((unsigned) i + 1); t = e[i]; e[i] = e[j]; e[j] = t; }
        table_of(table, e, 13);
        for (i = 0; i < units; i++) sl += (size_t) sprintf(stream + sl, "%s%s", i ? ";" : "", msgs[h_below(26)]);
        sl += (size_t) sprintf(stream + sl, "%s", h_chance(70) ? "\n" : "\r\n");
        if (h_chance(30)) sl += (size_t) sprintf(stream + sl, "%s\n", msgs[h_below(26)]);
        k = (size_t) sprintf(line, "P 256 %d %s", h_chance(70) ? 16 : 1 + (int) h_below(3), table);
        k += chunks_of(line + k, stream, sl);
        emit2(line);
    }
}

/* ---- C09: message A does not fit the input buffer and arrives in pieces: the first piece fits and stays pending, a later
 * one overruns (-363).  What was pending is abandoned; B, which fits, behaves as on a fresh context. */
void dir_p09(void) {
    static const ent_t pool[] = { {"I32", "pI,32,1,1"}, {"TWO", "pI,32,1,1/pF,1,1"}, {"ECHO?", "pI,32,1,1/rI,32,1,7,10"}, {"NOP", "iT"}, {"TXT", "pT,1,16"}, {"Q1?", "rI,32,1,1,10"} };
    static const char *bs[] = { "I32 5\n", "ECHO? 7\n", "NOP\n", "Q1?\n", "TXT \"abc\"\n", "I32 1,2\n", "NOSUCH\n", "TWO 1,2.5\n", "Q1?;ECHO? 3\n" };
    unsigned long n = h_thorough ? 6000 : 600;
    static char line[9000], table[2000], a[400];
    for (; n; n--) {
        int bufsize = 12 + (int) h_below(40), total, first, i; size_t k, al = 0; const char *b = bs[h_below(9)];
        if ((int) strlen(b) + 1 >= bufsize) continue;
        table_of(table, pool, 6);
        /* A: a message of bufsize .. bufsize+30 bytes */
        total = bufsize + (int) h_below(30);
        al = (size_t) sprintf(a, "%s", h_chance(50) ? "TWO " : "I32 ");
        while ((int) al < total - 1) a[al++] = (char)('0' + h_below(10));
        a[al++] = '\n';
        first = 1 + (int) h_below((unsigned)(bufsize - 2));                       /* fits without terminator: stays pending */
        k = (size_t) sprintf(line, "P9 %d %d %s", bufsize, 4 + (int) h_below(8), table);
        line[k++] = ' '; k += hexs(line + k, a, (size_t) first);
        i = first;
        while (i < (int) al) { int c = h_chance(60) ? (int) al - i : 1 + (int) h_below((unsigned)((int) al - i)); line[k++] = ' '; k += hexs(line + k, a + i, (size_t) c); i += c; }
        k += (size_t) sprintf(line + k, " |");
        k += chunks_of(line + k, b, strlen(b));
        emit2(line);
    }
}

/* ---- C06: long responses.  One unit emits 100..300 items (ASCII-formatted array, or that many scalar result calls):
 * every item is separated by ',', the unit counts as having responded, the units around it are separated by ';'.
 * (An item counter narrower than the number of items wraps exactly here.) */
void dir_p06(void) {
    static const int counts[] = {100, 126, 127, 128, 129, 130, 180, 254, 255, 256, 257, 258, 300};
    unsigned long n = h_thorough ? 3000 : 300;
    static char line[40000], table[30000], s1[12000], stream[200];
    for (; n; n--) {
        ent_t e[4]; int cnt = counts[h_below(13)], j, ne = 0; size_t k = 0, sl = 0; unsigned shape = h_below(6), sz = 1u << h_below(2);
        if (h_chance(70)) {
            k = (size_t) sprintf(s1, "rA,%u,2,", sz);
            for (j = 0; j < cnt * (int) sz; j++) k += (size_t) sprintf(s1 + k, "%02x", h_below(256));
            k += (size_t) sprintf(s1 + k, ",%u", h_below(2));
        } else {
            if (cnt > 190) cnt = 190;                       /* the harness runs at most 200 operations per script */
            for (j = 0; j < cnt; j++) k += (size_t) sprintf(s1 + k, "%srI,32,1,%x,10", j ? "/" : "", h_below(100));
        }
        e[ne].pattern = "LNG?"; e[ne++].script = s1;
        e[ne].pattern = "Q1?"; e[ne++].script = "rI,32,1,1,10";
        e[ne].pattern = "CMD"; e[ne++].script = "iT";
        table_of(table, e, ne);
        switch (shape) {
            case 0: sl = (size_t) sprintf(stream, "LNG?\n"); break;
            case 1: sl = (size_t) sprintf(stream, "LNG?;Q1?\n"); break;
            case 2: sl = (size_t) sprintf(stream, "Q1?;LNG?;Q1?\n"); break;
            case 3: sl = (size_t) sprintf(stream, "LNG?;CMD\n"); break;
            case 4: sl = (size_t) sprintf(stream, "CMD;LNG?\nQ1?\n"); break;
            default: sl = (size_t) sprintf(stream, "LNG?\nLNG?;LNG?\n"); break;
        }
        k = (size_t) sprintf(line, "P 256 8 %s", table);
        k += chunks_of(line + k, stream, sl);
        emit2(line);
    }
}


/* ---- C01, second sentence: complete NUL-terminated lines handed straight to the line parser, SCPI_Parse(ctx, line, strlen),
 * pseudo-chunk =L<hex>.  The line lives in an exact-size object (len + 1 bytes): any read or write outside it traps.
 * Lines are well-formed messages (with and without a terminator of their own), mutated ones, and binary noise; several
 * lines on one context, mixed now and then with ordinary SCPI_Input calls (pending input must be left alone). */
void dom_pline(void) {
    static const ent_t pool[] = {
        {"SYSTem:ERRor[:NEXT]?", "iT/rI,32,1,1,10"}, {"[:MEASure]:VOLTage#:AC?", "iN,2,-1/rI,32,1,4,10"}, {"OUTPut#:FREQuency#", "iN,3,1/pI,32,1,0"},
        {"*IDN?", "rC,4d414e55/rC,4d4f44"}, {"TEST:A", "iT"}, {"TEST:A:B", "iT"}, {"TEST[:A]:C", "iT"}, {"I32", "pI,32,1,1"}, {"DBL", "pF,1,1"},
        {"NUM", "pN,1"}, {"CHR", "pH,1"}, {"BLK", "pK,1"}, {"TXT", "pT,1,16"}, {"TXT3", "pT,1,3"}, {"ARR", "pA,32,1,3,1"}, {"BOOL", "pB,0"}, {"CHO", "pC,1,0"},
        {"ECHO?", "pI,32,1,1/rI,32,1,7,10"}, {"Q2?", "rI,32,1,1,10/rT,6122/rB,0"}, {"R:BLK?", "rK,0001020a0d3b"}, {"NOP", "iT"}, {"FAIL", "ret,0"}, {"NOOP", "null"},
    };
    static const char *frag[] = { "1", "-5", "#HFF", "1.5e3", "12 V", "1 e 3", "MAX", "abc", "\"text\"", "'s'", "\"a\"\"b\"", "#13abc", "#15a;b\n1", "(1:2,3)", "(@1!2)",
        "\"unterminated", "#", "#1", "#15ab", "#210abc", "(", "1,,2", ",", "\x80", "1 2", "e5", "#Hzz", "2147483648", "18446744073709551616", "1e400", ".", "" };
    static const char *hdrs[] = { "SYST:ERR?", "MEAS:VOLT3:AC?", "VOLT:AC?", "OUTP2:FREQ5", "*IDN?", "TEST:A", "TEST:A:B", "TEST:C", ":TEST:A:C", "B", "C", "I32", "DBL", "NUM", "CHR", "BLK",
        "TXT", "TXT3", "ARR", "BOOL", "CHO", "ECHO?", "Q2?", "R:BLK?", "NOP", "FAIL", "NOOP", "FOO", "*XYZ", ":", "*", "A?B", "TEST:", "outp:freq" };
    unsigned long n = h_thorough ? 300000 : 30000;
    static char line[60000], table[8000], msg[2048];
    table_of(table, pool, (int)(sizeof pool / sizeof pool[0]));
    for (; n; n--) {
        int lines = 1 + (int) h_below(4), l; size_t k;
        k = (size_t) sprintf(line, "P %d %d %s", h_chance(60) ? 64 : 2 + (int) h_below(40), 1 + (int) h_below(6), table);
        for (l = 0; l < lines; l++) {
            size_t ml = 0; int units = 1 + (int) h_below(3), u; unsigned mut, i;
            if (h_chance(6)) {                          /* binary noise */
                ml = h_below(40); for (i = 0; i < ml; i++) msg[i] = (char) (1 + h_below(255));
            } else {
                for (u = 0; u < units; u++) {
                    int np = (int) h_below(4), p;
                    if (u) msg[ml++] = ';';
                    if (h_chance(10)) msg[ml++] = ' ';
                    ml += (size_t) sprintf(msg + ml, "%s", hdrs[h_below((unsigned)(sizeof hdrs / sizeof hdrs[0]))]);
                    for (p = 0; p < np; p++) ml += (size_t) sprintf(msg + ml, "%s%s", p ? (h_chance(30) ? " , " : ",") : " ", frag[h_below((unsigned)(sizeof frag / sizeof frag[0]))]);
                }
                { unsigned t = h_below(10); if (t < 2) msg[ml++] = '\n'; else if (t < 3) { msg[ml++] = '\r'; msg[ml++] = '\n'; } else if (t < 4) { msg[ml++] = '\n'; ml += (size_t) sprintf(msg + ml, "NOP"); } }
                mut = h_chance(35) ? 1 + h_below(4) : 0;
                for (i = 0; i < mut && ml; i++) {
                    unsigned kind = h_below(5), at = h_below((unsigned) ml);
                    if (kind == 0) msg[at] = (char) (1 + h_below(255));
                    else if (kind == 1 && ml > 1) { memmove(msg + at, msg + at + 1, ml - at - 1); ml--; }
                    else if (kind == 2 && ml < 2000) { memmove(msg + at + 1, msg + at, ml - at); ml++; }
                    else if (kind == 3) msg[at] = "\"'#(),;:*?\n\r \t"[h_below(14)];
                    else ml = at;
                }
            }
            /* a NUL-terminated line has no NUL inside */
            { size_t j; for (j = 0; j < ml; j++) if (!msg[j]) msg[j] = ' '; }
            if (h_chance(12)) {                         /* an ordinary input call in between (possibly leaving input pending) */
                line[k++] = ' '; k += hexs(line + k, msg, ml);
                if (h_chance(30)) k += (size_t) sprintf(line + k, " -");
            } else {
                k += (size_t) sprintf(line + k, " =L"); if (ml) k += hexs(line + k, msg, ml);
            }
        }
        line[k] = 0;
        emit2(line);
    }
}

/* ---- C02 / C03 through the public API: inside a handler, SCPI_IsCmd(ctx, text) tests a header text against the pattern of
 * the MATCHED entry, SCPI_Match(pattern, text, len) any pattern against any text (script ops iC / iM, token V<0|1>).
 * Texts: valid spellings of the entry's own pattern, of other entries' patterns, and near misses. */
static size_t spell2(char *out, const char *pattern, int damage) {
    const char *p = pattern; size_t k = 0; int skip = 0;
    while (*p) {
        if (*p == '[') { skip = h_chance(50); p++; continue; }
        if (*p == ']') { skip = 0; p++; continue; }
        if (skip) { p++; continue; }
        if (*p == '#') { if (h_chance(60)) k += (size_t) sprintf(out + k, "%u", h_below(h_chance(80) ? 10 : 70000)); p++; continue; }
        if (islower((unsigned char) *p)) {
            int drop = h_chance(50);
            while (islower((unsigned char) *p)) { if (!drop) out[k++] = h_chance(50) ? (char) toupper((unsigned char) *p) : *p; p++; }
            continue;
        }
        out[k++] = h_chance(50) ? (char) tolower((unsigned char) *p) : *p; p++;
    }
    if (damage && k) {
        unsigned kind = h_below(5), at = h_below((unsigned) k);
        if (kind == 0) { memmove(out + at, out + at + 1, k - at - 1); k--; }
        else if (kind == 1) { memmove(out + at + 1, out + at, k - at); out[at] = "AZ:?*19"[h_below(7)]; k++; }
        else if (kind == 2) out[at] = "AZ:?*19x"[h_below(8)];
        else if (kind == 3) { memmove(out + 1, out, k); out[0] = ':'; k++; }
        else out[k++] = '?';
    }
    out[k] = 0;
    return k;
}

void dir_p02b(void) {
    static const char *pats[] = { "SYSTem:ERRor[:NEXT]?", "SYSTem:ERRor:COUNt?", "[:MEASure]:VOLTage:DC?", "[:MEASure]:VOLTage#:AC?", "OUTPut#:FREQuency#",
        "*IDN?", "*RST", "TEST:A", "TEST:A:B", "TEST[:A]:C", "TEST:CHANnel#[:SUB#]", "VOLT", "OUTPut:STATe", "OUTPut:STATe?", "A", "B?", "CONFigure:CHANnel[:STATe]" };
    const unsigned NP = sizeof pats / sizeof pats[0];
    unsigned long n = h_thorough ? 10000 : 1500;
    static char line[30000], table[20000], stream[600], scripts[8][1200];
    for (; n; n--) {
        ent_t e[8]; int ne = 3 + (int) h_below(5), i, units = 1 + (int) h_below(3); size_t k, sl = 0; char tmp[128], hx[300];
        for (i = 0; i < ne; i++) {
            size_t sk = (size_t) sprintf(scripts[i], "iT"); int tests = 1 + (int) h_below(3), t;
            e[i].pattern = pats[h_below(NP)];
            for (t = 0; t < tests; t++) {
                const char *src = h_chance(60) ? e[i].pattern : pats[h_below(NP)];
                size_t l = spell2(tmp, src, h_chance(25)); hexs(hx, tmp, l);
                if (h_chance(70)) sk += (size_t) sprintf(scripts[i] + sk, "/iC,%s", hx);
                else { char hp[300]; const char *pp = pats[h_below(NP)]; hexs(hp, pp, strlen(pp)); sk += (size_t) sprintf(scripts[i] + sk, "/iM,%s,%s", hp, hx); }
            }
            /* the numeric suffixes with the caller's default for those left out (defaults that need all 32 bits included) */
            if (strchr(e[i].pattern, '#') && h_chance(70)) {
                static const int dfl[] = {-1, 0, 7, 32767, 32768, -32769, 100000, 2147483647, (-2147483647 - 1)};
                sk += (size_t) sprintf(scripts[i] + sk, "/iN,%u,%d", 1 + h_below(4), dfl[h_below(9)]);
            }
            e[i].script = scripts[i];
        }
        table_of(table, e, ne);
        for (i = 0; i < units; i++) {
            size_t l = spell2(tmp, e[h_below((unsigned) ne)].pattern, 0);
            sl += (size_t) sprintf(stream + sl, "%s%s%s", i ? ";" : "", ((i || h_chance(40)) && tmp[0] != '*') ? ":" : "", tmp); (void) l;
        }
        stream[sl++] = '\n';
        k = (size_t) sprintf(line, "P 256 8 %s", table);
        k += chunks_of(line + k, stream, sl);
        emit2(line);
    }
}

/* ---- C09: the consumed bytes are removed from the buffer and the rest moved to the front.  A's call also carries the
 * beginning of the next message; that message is completed later (more bytes and a terminator, or a zero-length call).
 * It must behave as on a fresh context that received the same bytes: nothing of A that still lies behind the moved
 * bytes may be read as part of it (numbers glued to stale digits, strings running into stale quotes). */
void dir_p09b(void) {
    static const ent_t pool[] = { {"I32", "pI,32,1,1"}, {"U64", "pI,64,0,1"}, {"DBL", "pF,1,1"}, {"NUM", "pN,1"}, {"ECHO?", "pI,32,1,1/rI,32,1,7,10"}, {"TXT", "pT,1,16"},
                                  {"NOP", "iT"}, {"Q1?", "rI,32,1,1,10"}, {"BLK", "pK,1"}, {"CHR", "pH,1"}, {"HEX", "pI,32,0,1"} };
    static const char *numcmd[] = { "I32", "U64", "DBL", "NUM", "ECHO?", "HEX" };
    unsigned long n = h_thorough ? 8000 : 1200;
    static char line[9000], table[2000], a[600], b[200];
    table_of(table, pool, (int)(sizeof pool / sizeof pool[0]));
    for (; n; n--) {
        size_t al = 0, k, bl = 0; int msgs = 1 + (int) h_below(2), m; unsigned shape = h_below(4), tail = h_below(6);
        for (m = 0; m < msgs; m++) {
            unsigned kind = h_below(4);
            if (kind == 0) al += (size_t) sprintf(a + al, "%s %u%s%u\n", numcmd[h_below(5)], h_below(100000), h_chance(40) ? "." : "", h_below(100000));
            else if (kind == 1) al += (size_t) sprintf(a + al, "HEX #H%X%X\r\n", h_below(65536), h_below(65536));
            else if (kind == 2) al += (size_t) sprintf(a + al, "TXT \"%u\"\"%u\"\n", h_below(1000), h_below(1000));
            else al += (size_t) sprintf(a + al, "DBL %u.%ue%u\n", h_below(1000), h_below(1000), h_below(20));
        }
        /* the beginning of the next message, unterminated, in the same call */
        if (tail == 0) al += (size_t) sprintf(a + al, "HEX #H%X", h_below(256));
        else if (tail == 1) al += (size_t) sprintf(a + al, "DBL %u", h_below(100));
        else if (tail == 2) al += (size_t) sprintf(a + al, "TXT \"ab");
        else if (tail == 3) al += (size_t) sprintf(a + al, "NUM %u.", h_below(10));
        else al += (size_t) sprintf(a + al, "%s %s%u", numcmd[h_below(5)], h_chance(20) ? "-" : "", h_below(1000));
        k = (size_t) sprintf(line, "P9 %d %d %s ", 256, 4 + (int) h_below(8), table);
        k += hexs(line + k, a, al);
        k += (size_t) sprintf(line + k, " |");
        /* completion: a zero-length call; more bytes and a terminator; more bytes then a zero-length call */
        if (tail == 2) bl = (size_t) sprintf(b, "c\"");
        else if (shape >= 2 && tail != 0) bl = (size_t) sprintf(b, "%u", h_below(100));
        if (shape == 0 && tail != 2) k += (size_t) sprintf(line + k, " -");
        else if (shape == 1 || shape == 2 || tail == 2) { bl += (size_t) sprintf(b + bl, "\n"); k += chunks_of(line + k, b, bl); }
        else { if (bl) k += chunks_of(line + k, b, bl); k += (size_t) sprintf(line + k, " -"); }
        emit2(line);
    }
}

/* ---- C02 (the path is empty at the start of every message) after an input overrun: a fragment without terminator is
 * pending, the next chunk does not fit (-363), then a complete well-formed message arrives.  The pending fragment is
 * abandoned with the overrun: the message is dispatched by its own headers, not glued to the fragment. */
void dir_p02c(void) {
    static const ent_t pool[] = { {"CONFigure:RANGe", "iT/pI,32,1,0"}, {"CONFigure:STATe", "iT/pI,32,1,0"}, {"RANGe", "iT/pI,32,1,0"}, {"STATe", "iT/pI,32,1,0"}, {"*OPC", "iT"},
                                  {"TEST:A", "iT"}, {"TEST:A:B", "iT"}, {"A", "iT"}, {"SYSTem:ERRor[:NEXT]?", "iT/rI,32,1,1,10"}, {"ERRor?", "iT/rI,32,1,2,10"} };
    static const char *frags[] = { "CONF:", "CONF", "TEST:A;", "TEST:A:", "SYST:", "SYST:ERR:", ":", "*", "CONF:RANG 1;", "TEST:" };
    static const char *msgs[] = { "RANG 5;STAT 1\n", "STAT 1\n", "A\n", "B\n", "ERR?\n", "RANG 2;:CONF:STAT 0\n", "*OPC;STAT 1\n", "NEXT?\n", "A;B\r\n" };
    unsigned long n = h_thorough ? 6000 : 600;
    static char line[9000], table[3000], junk[200];
    table_of(table, pool, (int)(sizeof pool / sizeof pool[0]));
    for (; n; n--) {
        int bufsize = 24 + (int) h_below(24); const char *f = frags[h_below(10)], *m = msgs[h_below(9)]; size_t k, jl, i;
        if ((int) strlen(m) + 1 >= bufsize) continue;
        jl = (size_t)(bufsize - (int) strlen(f)) + h_below(30);                 /* does not fit behind the fragment */
        for (i = 0; i < jl && i < sizeof junk - 1; i++) junk[i] = "ABC 123,;:"[h_below(10)];
        k = (size_t) sprintf(line, "P %d %d %s ", bufsize, 4 + (int) h_below(8), table);
        k += hexs(line + k, f, strlen(f)); line[k++] = ' ';
        k += hexs(line + k, junk, i);
        k += chunks_of(line + k, m, strlen(m));
        if (h_chance(30)) { const char *m2 = msgs[h_below(9)]; k += chunks_of(line + k, m2, strlen(m2)); }
        line[k] = 0;
        emit2(line);
    }
}

/* ---- C09: the handler B's header selects does not depend on what ran before.  Overlapping patterns: A is accepted only by the
 * later, more general entry; B is accepted by both and must run the FIRST one, as on a fresh context (a dispatcher that
 * remembers the entry of the previous unit or message gets this wrong only after A). */
void dir_p09c(void) {
    static const struct { const char *specific, *generic, *h1, *h2; } pairs[] = {
        {"TEST:CHANnel#", "TEST:CHANnel#[:SUB#]", "TEST:CHAN2:SUB3", "TEST:CHAN4"},
        {"VOLTage:DC?", "[:MEASure]:VOLTage:DC?", "MEAS:VOLT:DC?", "VOLT:DC?"},
        {"TEST:C", "TEST[:A]:C", "TEST:A:C", "TEST:C"},
        {"OUTPut1:STATe", "OUTPut#:STATe", "OUTP2:STAT", "OUTP1:STAT"},
        {"SYSTem:ERRor?", "SYSTem:ERRor[:NEXT]?", "SYST:ERR:NEXT?", "SYST:ERR?"},
    };
    unsigned long n = h_thorough ? 4000 : 400;
    static char line[9000], table[4000], a[300], b[300];
    for (; n; n--) {
        ent_t e[4]; int p = (int) h_below(5), ne = 0; size_t k, al, bl; char h1[64], h2[64];
        if (h_chance(40)) { e[ne].pattern = "*CLS"; e[ne++].script = "iT"; }
        e[ne].pattern = pairs[p].specific; e[ne++].script = "iT/iN,2,-1/rI,32,1,1,10";
        e[ne].pattern = pairs[p].generic; e[ne++].script = "iT/iN,2,-1/rI,32,1,2,10";
        table_of(table, e, ne);
        strcpy(h1, pairs[p].h1); strcpy(h2, pairs[p].h2); randcase(h1); randcase(h2);
        al = (size_t) sprintf(a, "%s\n", h1); if (h_chance(30)) al += (size_t) sprintf(a + al, "%s\n", h1);
        if (h_chance(50)) bl = (size_t) sprintf(b, "%s\n", h2); else bl = (size_t) sprintf(b, "%s;:%s\n", h2, h2);
        k = (size_t) sprintf(line, "P9 256 %d %s", 4 + (int) h_below(8), table);
        k += chunks_of(line + k, a, al);
        k += (size_t) sprintf(line + k, " |");
        k += chunks_of(line + k, b, bl);
        emit2(line);
    }
}

/* Domain p06big: units answering 2^15 / 2^16 result items and one more or less (an item counter of 16 bits): a loop of result
 * calls (script op rN).  The model's output is a list that grows by appending, so one such case costs the driver minutes:
 * the quick tier runs the 2^15 case only. */
void dir_p06big(void) {
    static const long big[] = {32768, 32767, 32769, 65535, 65536, 65537}; int bi, shape, nb = h_thorough ? 6 : 1;
    static char line[4000], table[1000], s1[40], stream[100];
    for (bi = 0; bi < nb; bi++)
        for (shape = 0; shape < (h_thorough ? 2 : 1); shape++) {
            ent_t e[3]; int ne = 0; size_t sl, k;
            sprintf(s1, "rN,%ld", big[bi]);
            e[ne].pattern = "LNG?"; e[ne++].script = s1;
            e[ne].pattern = "Q1?"; e[ne++].script = "rI,32,1,1,10";
            table_of(table, e, ne);
            sl = (size_t) sprintf(stream, shape ? "Q1?;LNG?\nQ1?\n" : "LNG?;Q1?\nQ1?\n");
            k = (size_t) sprintf(line, "P 256 8 %s", table);
            k += chunks_of(line + k, stream, sl);
            emit2(line);
        }
}
